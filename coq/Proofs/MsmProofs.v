(* C09: the MSM satellite / signal / cell maps built by the mirrored _getsatcellmaps and used by the
   PRN / CELLPRN / CELLSIG pseudo-fields are the ones Spec/MsmMasks.v prescribes, for every mask value
   and every table; counts are popcounts; labels default to exactly t_na. *)
From Coq Require Import NArith ZArith List String Bool Lia Sorted.
From PyRtcm Require Import Base.Bytes Base.Dec Model.Types Model.Message Spec.MsmMasks Spec.Pinned.
Import ListNotations.
Open Scope Z_scope.

(* ====================== generic list facts ====================== *)
Lemma select_map {A B} (f:A -> B) bs l : select bs (map f l) = map f (select bs l).
Proof.
  revert l. induction bs as [|b bs IH]; intros [|x l]; simpl; auto.
  destruct b; simpl; now rewrite IH.
Qed.

Lemma filter_select {A} (f:A -> bool) l : filter f l = select (map f l) l.
Proof. induction l as [|x l IH]; simpl; auto. destruct (f x); now rewrite IH. Qed.

(* filtering a numbered list on the number, then dropping the numbers *)
Lemma filter_combine_select {A} (f:Z -> bool) ids (l:list A) :
  map snd (filter (fun p => f (fst p)) (combine ids l)) = select (map f ids) l.
Proof.
  revert l. induction ids as [|i ids IH]; intros [|x l]; simpl; auto.
  destruct (f i); simpl; now rewrite IH.
Qed.

Lemma positions_from_select k l :
  positions_from (Z.of_nat k) l = select l (map Z.of_nat (seq k (List.length l))).
Proof.
  revert k. induction l as [|b l IH]; intro k; simpl; auto.
  replace (Z.of_nat k + 1) with (Z.of_nat (S k)) by lia. rewrite IH. reflexivity.
Qed.

Lemma positions_select l : positions l = select l (map Z.of_nat (seq 1 (List.length l))).
Proof. unfold positions. apply (positions_from_select 1). Qed.

Lemma positions_from_range i l p : In p (positions_from i l) -> i <= p < i + Z.of_nat (List.length l).
Proof.
  revert i. induction l as [|b l IH]; intros i H; simpl in H; [contradiction|].
  assert (R: In p (positions_from (i+1) l) -> i <= p < i + Z.of_nat (List.length (b::l))).
  { intro H'. apply IH in H'. simpl List.length. lia. }
  destruct b; [destruct H as [H|H]|]; auto. subst. simpl List.length. lia.
Qed.

Lemma positions_range l p : In p (positions l) -> 1 <= p <= Z.of_nat (List.length l).
Proof. intro H. apply positions_from_range in H. lia. Qed.

Lemma positions_from_length i l : List.length (positions_from i l) = List.length (filter (fun b:bool => b) l).
Proof. revert i. induction l as [|b l IH]; intro i; simpl; auto. destruct b; simpl; now rewrite IH. Qed.

(* declarative reading of [positions]: exactly the 1-based places holding true, strictly increasing *)
Lemma positions_from_spec i l p :
  In p (positions_from i l) <-> (i <= p /\ nth_error l (Z.to_nat (p - i)) = Some true).
Proof.
  revert i. induction l as [|b l IH]; intro i.
  - simpl. split; [contradiction|]. intros [_ H]. destruct (Z.to_nat (p - i)); discriminate.
  - assert (R: In p (positions_from (i+1) l) <-> (i + 1 <= p /\ nth_error (b::l) (Z.to_nat (p - i)) = Some true)).
    { rewrite IH. split; intros [H1 H2]; split; auto.
      - replace (Z.to_nat (p - i)) with (S (Z.to_nat (p - (i+1)))) by lia. exact H2.
      - replace (Z.to_nat (p - i)) with (S (Z.to_nat (p - (i+1)))) in H2 by lia. exact H2. }
    simpl positions_from. destruct b.
    + simpl In. rewrite R. split.
      * intros [H|[H1 H2]]; [subst; split; [lia|]; now rewrite Z.sub_diag | split; [lia|auto]].
      * intros [H1 H2]. destruct (Z.eq_dec i p) as [E|E]; [now left|right; split; [lia|auto]].
    + rewrite R. split; intros [H1 H2]; split; auto; try lia.
      destruct (Z.eq_dec i p) as [E|E]; [|lia]. subst. rewrite Z.sub_diag in H2. discriminate.
Qed.

Theorem positions_spec l p :
  In p (positions l) <-> (1 <= p /\ nth_error l (Z.to_nat (p - 1)) = Some true).
Proof. apply positions_from_spec. Qed.

Lemma positions_from_sorted i l : StronglySorted Z.lt (positions_from i l).
Proof.
  revert i. induction l as [|b l IH]; intro i; simpl; [constructor|].
  destruct b; auto. constructor; auto.
  apply Forall_forall. intros p Hp. apply positions_from_range in Hp. lia.
Qed.

Theorem positions_sorted l : StronglySorted Z.lt (positions l).
Proof. apply positions_from_sorted. Qed.

(* ====================== bits_of as bit tests ====================== *)
Lemma bits_of_testbit w n :
  bits_of w n = map (fun idx => Z.testbit (Z.of_N n) (Z.of_nat w - idx)) (map Z.of_nat (seq 1 w)).
Proof.
  revert n. induction w as [|w IH]; intro n; [reflexivity|].
  cbn [bits_of]. rewrite seq_S, !map_app. f_equal.
  - rewrite IH. rewrite !map_map. apply map_ext_in. intros k Hk. apply in_seq in Hk.
    rewrite N2Z.inj_div. change (Z.of_N 2) with 2. rewrite Z.div2_bits by lia.
    f_equal. lia.
  - cbn [map]. f_equal. replace (Z.of_nat (S w) - Z.of_nat (1 + w)) with (Z.of_N 0) by lia.
    rewrite Z.testbit_of_N. symmetry. apply N.bit0_odd.
Qed.

Lemma mask_bits_testbit w m : 0 <= m ->
  mask_bits w m = map (fun idx => Z.testbit m (Z.of_nat w - idx)) (map Z.of_nat (seq 1 w)).
Proof. intro H. unfold mask_bits. rewrite bits_of_testbit, Z2N.id by exact H. reflexivity. Qed.

(* only the w low bits of the mask value matter *)
Lemma mask_bits_mod w m : 0 <= m -> mask_bits w (m mod 2^Z.of_nat w) = mask_bits w m.
Proof.
  intro H. assert (P: 0 < 2^Z.of_nat w) by (apply Z.pow_pos_nonneg; lia).
  rewrite !mask_bits_testbit by (auto; apply Z.mod_pos_bound; exact P).
  rewrite !map_map. apply map_ext_in. intros k Hk. apply in_seq in Hk.
  apply Z.mod_pow2_bits_low. lia.
Qed.

Lemma testbit_above m w : 0 <= w -> 0 <= m < 2^w -> Z.testbit m w = false.
Proof.
  intros Hw [H0 H1]. destruct (Z.eq_dec m 0) as [E|E]; [subst; apply Z.testbit_0_l|].
  apply Z.bits_above_log2; [exact H0|]. apply Z.log2_lt_pow2; lia.
Qed.

(* the loop `for idx in range(w+1): if mask >> (w - idx) & 1` is the MSB-first scan; index 0 never fires *)
Theorem scan_positions (wn:nat) (w m:Z) : w = Z.of_nat wn -> 0 <= m < 2^w ->
  filter (fun idx => Z.testbit m (w - idx)) (zrange (S wn)) = positions (bits_of wn (Z.to_N m)).
Proof.
  intros -> Hm. unfold zrange. cbn [seq map filter].
  change (Z.of_nat 0) with 0. rewrite Z.sub_0_r, testbit_above by (auto; lia).
  rewrite filter_select. fold (mask_bits wn m). rewrite <- mask_bits_testbit by lia.
  rewrite positions_select. unfold mask_bits. rewrite bits_of_length. reflexivity.
Qed.

(* without the range hypothesis the scan over 1..w is still the MSB-first scan of the w low bits *)
Theorem scan_positions_low (wn:nat) (w m:Z) : w = Z.of_nat wn -> 0 <= m ->
  filter (fun idx => Z.testbit m (w - idx)) (map Z.of_nat (seq 1 wn)) = positions (bits_of wn (Z.to_N m)).
Proof.
  intros -> Hm. rewrite filter_select. fold (mask_bits wn m). rewrite <- mask_bits_testbit by lia.
  rewrite positions_select. unfold mask_bits. rewrite bits_of_length. reflexivity.
Qed.

(* ====================== counts ====================== *)
Lemma popcount_step n : popcount n = popcount (n / 2) + (if N.odd n then 1 else 0).
Proof.
  rewrite <- N.div2_div. destruct n as [|p]; [reflexivity|]. destruct p as [q|q|]; cbn -[Z.add]; lia.
Qed.

Lemma positions_app_length a b :
  List.length (positions (a ++ b)) = (List.length (positions a) + List.length (positions b))%nat.
Proof. unfold positions. rewrite !positions_from_length, filter_app, app_length. reflexivity. Qed.

Theorem popcount_positions (w:nat) (n:N) : (n < 2^N.of_nat w)%N ->
  popcount n = Z.of_nat (List.length (positions (bits_of w n))).
Proof.
  revert n. induction w as [|w IH]; intros n H.
  - simpl in H. assert (n = 0%N) by lia. subst. reflexivity.
  - cbn [bits_of]. rewrite positions_app_length, popcount_step, IH.
    + destruct (N.odd n); cbn; lia.
    + rewrite Nat2N.inj_succ, N.pow_succ_r' in H. apply N.div_lt_upper_bound; lia.
Qed.

Lemma to_N_lt_pow2 m w : 0 <= m < 2^Z.of_nat w -> (Z.to_N m < 2^N.of_nat w)%N.
Proof.
  intros [H0 H1]. apply N2Z.inj_lt. rewrite Z2N.id by exact H0.
  rewrite N2Z.inj_pow. change (Z.of_N 2) with 2. now rewrite nat_N_Z.
Qed.

(* ====================== lookups, numbering, the cell grid ====================== *)
Lemma zassoc_zlookup {A} id (tab:list (Z*A)) : zassoc id tab = zlookup id tab.
Proof.
  unfold zlookup. induction tab as [|[k v] tab IH]; [reflexivity|].
  cbn [zassoc find fst]. destruct (k =? id); [reflexivity|exact IH].
Qed.

Lemma prn_label_zassoc prnmap na id :
  match zassoc id prnmap with Some s => s | None => na end = prn_label prnmap na id.
Proof. unfold prn_label. now rewrite zassoc_zlookup. Qed.

Lemma sig_label_zassoc sigmap na (rinex:bool) id :
  (if rinex then snd match zassoc id sigmap with Some p => p | None => (na, na) end
            else fst match zassoc id sigmap with Some p => p | None => (na, na) end)
  = sig_label sigmap na rinex id.
Proof.
  unfold sig_label. rewrite zassoc_zlookup. destruct (zlookup id sigmap) as [[band code]|]; cbn; [reflexivity|].
  now destruct rinex.
Qed.

Lemma number_eq {A} (l:list A) :
  combine (map (fun k => Z.of_nat k + 1) (seq 0 (List.length l))) l = number l.
Proof.
  unfold number. f_equal. rewrite <- seq_shift, map_map. apply map_ext. intro k. lia.
Qed.

Lemma number_length {A} (l:list A) : List.length (number l) = List.length l.
Proof. unfold number. rewrite combine_length, map_length, seq_length. lia. Qed.

Lemma zassoc_numbered {A} (l:list A) s i :
  zassoc i (combine (map Z.of_nat (seq s (List.length l))) l) =
  if Z.of_nat s <=? i then nth_error l (Z.to_nat (i - Z.of_nat s)) else None.
Proof.
  revert s. induction l as [|x l IH]; intro s.
  - simpl. destruct (Z.of_nat s <=? i); [|reflexivity]. now destruct (Z.to_nat (i - Z.of_nat s)).
  - cbn [List.length seq map combine zassoc]. rewrite IH.
    destruct (Z.eqb_spec (Z.of_nat s) i) as [E|E].
    + subst. rewrite Z.leb_refl, Z.sub_diag. reflexivity.
    + destruct (Z.leb_spec (Z.of_nat s) i) as [L|L].
      * destruct (Z.leb_spec (Z.of_nat (S s)) i) as [L'|L']; [|lia].
        replace (Z.to_nat (i - Z.of_nat s)) with (S (Z.to_nat (i - Z.of_nat (S s)))) by lia. reflexivity.
      * destruct (Z.leb_spec (Z.of_nat (S s)) i) as [L'|L']; [lia|reflexivity].
Qed.

(* dict lookup in {1: l[0], 2: l[1], ...} *)
Theorem zassoc_number {A} (l:list A) i :
  zassoc i (number l) = if 1 <=? i then nth_error l (Z.to_nat (i - 1)) else None.
Proof. unfold number. apply (zassoc_numbered l 1 i). Qed.

Lemma zassoc_number_nth {A} (l:list A) (k:nat) d : (k < List.length l)%nat ->
  zassoc (Z.of_nat k + 1) (number l) = Some (nth k l d).
Proof.
  intro H. rewrite zassoc_number. destruct (Z.leb_spec 1 (Z.of_nat k + 1)) as [L|L]; [|lia].
  replace (Z.to_nat (Z.of_nat k + 1 - 1)) with k by lia. now apply nth_error_nth'.
Qed.

Lemma zassoc_number_none {A} (l:list A) i : i < 1 \/ Z.of_nat (List.length l) < i -> zassoc i (number l) = None.
Proof.
  intro H. rewrite zassoc_number. destruct (Z.leb_spec 1 i) as [L|L]; [|reflexivity].
  apply nth_error_None. lia.
Qed.

Lemma cell_pairs_length {A B} (sats:list A) (sigs:list B) :
  List.length (cell_pairs sats sigs) = (List.length sats * List.length sigs)%nat.
Proof.
  unfold cell_pairs. induction sats as [|s sats IH]; [reflexivity|].
  cbn [flat_map List.length]. rewrite app_length, map_length, IH. lia.
Qed.

Lemma cell_pairs_map {A B C D} (f:A -> C) (g:B -> D) sats sigs :
  cell_pairs (map f sats) (map g sigs) = map (fun p => (f (fst p), g (snd p))) (cell_pairs sats sigs).
Proof.
  unfold cell_pairs. induction sats as [|s sats IH]; [reflexivity|].
  cbn [map flat_map]. rewrite map_app, IH, !map_map. reflexivity.
Qed.

(* satellite-major: entry j (0-based) of the grid is (satellite j / nsig, signal j mod nsig) *)
Lemma cell_pairs_nth {A B} (sats:list A) (sigs:list B) j ds dg :
  (j < List.length sats * List.length sigs)%nat ->
  nth j (cell_pairs sats sigs) (ds, dg) =
  (nth (j / List.length sigs) sats ds, nth (j mod List.length sigs) sigs dg).
Proof.
  unfold cell_pairs. revert j. induction sats as [|s sats IH]; intros j H; [simpl in H; lia|].
  assert (N0: List.length sigs <> O) by (intro E; rewrite E in H; lia).
  cbn [flat_map]. destruct (Nat.lt_ge_cases j (List.length sigs)) as [L|L].
  - rewrite app_nth1 by (now rewrite map_length).
    rewrite Nat.div_small, Nat.mod_small by exact L.
    change (ds, dg) with ((fun g => (ds, g)) dg). cbn [nth].
    rewrite (nth_indep _ _ (s, dg)) by (now rewrite map_length).
    change (s, dg) with ((fun g => (s, g)) dg). now rewrite map_nth.
  - rewrite app_nth2 by (rewrite map_length; exact L). rewrite map_length.
    rewrite IH by (cbn [List.length] in H; lia).
    replace j with ((j - List.length sigs) + 1 * List.length sigs)%nat at 3 4 by lia.
    rewrite Nat.div_add, Nat.mod_add by exact N0.
    replace (((j - List.length sigs) / List.length sigs + 1))%nat with (S ((j - List.length sigs) / List.length sigs)) by lia.
    reflexivity.
Qed.

(* the selected entries are those standing at the positions of the true bits *)
Lemma select_positions_from {A} bs (l:list A) i d : (List.length bs <= List.length l)%nat ->
  select bs l = map (fun p => nth (Z.to_nat (p - i)) l d) (positions_from i bs).
Proof.
  revert l i. induction bs as [|b bs IH]; intros l i H; [reflexivity|].
  destruct l as [|x l]; [simpl in H; lia|]. cbn [select positions_from].
  assert (R: select bs l = map (fun p => nth (Z.to_nat (p - i)) (x :: l) d) (positions_from (i + 1) bs)).
  { rewrite (IH l (i+1)) by (simpl in H; lia). apply map_ext_in. intros p Hp.
    apply positions_from_range in Hp.
    replace (Z.to_nat (p - i)) with (S (Z.to_nat (p - (i+1)))) by lia. reflexivity. }
  destruct b; cbn [map]; rewrite R; [|reflexivity].
  rewrite Z.sub_diag. reflexivity.
Qed.

Lemma select_positions {A} bs (l:list A) d : (List.length bs <= List.length l)%nat ->
  select bs l = map (fun p => nth (Z.to_nat (p - 1)) l d) (positions bs).
Proof. apply select_positions_from. Qed.

Lemma select_length {A} bs (l:list A) : List.length bs = List.length l ->
  List.length (select bs l) = List.length (positions bs).
Proof.
  intro H. destruct l as [|d l].
  - destruct bs; [reflexivity|discriminate].
  - rewrite (select_positions bs (d::l) d) by lia. apply map_length.
Qed.

(* ====================== _getsatcellmaps ====================== *)
Lemma number_eq_map {A B} (f:A -> B) (h:list A) :
  combine (map (fun k => Z.of_nat k + 1) (seq 0 (List.length h))) (map f h) = number (map f h).
Proof. rewrite <- number_eq, map_length. reflexivity. Qed.

(* the cell loop, for arbitrary satellite / signal label lists *)
Lemma cellmap_build {A B} (L:list A) (S:list B) c : 0 <= c ->
  combine (map (fun k => Z.of_nat k + 1)
            (seq 0 (List.length
               (filter (fun '(idx, _) => Z.testbit c (Z.of_nat (List.length L) * Z.of_nat (List.length S) - idx))
                  (combine (map (fun k => Z.of_nat k + 1)
                              (seq 0 (List.length (flat_map (fun s => map (fun g => (s, g)) S) L))))
                           (flat_map (fun s => map (fun g => (s, g)) S) L))))))
          (map snd
             (filter (fun '(idx, _) => Z.testbit c (Z.of_nat (List.length L) * Z.of_nat (List.length S) - idx))
                (combine (map (fun k => Z.of_nat k + 1)
                            (seq 0 (List.length (flat_map (fun s => map (fun g => (s, g)) S) L))))
                         (flat_map (fun s => map (fun g => (s, g)) S) L))))
  = number (cells L S c).
Proof.
  intro Rc. fold (cell_pairs L S). rewrite number_eq_map, (number_eq (cell_pairs L S)). f_equal.
  pose (F := fun idx => Z.testbit c (Z.of_nat (List.length L) * Z.of_nat (List.length S) - idx)).
  rewrite (filter_ext _ (fun p => F (fst p))) by (intros [i x]; reflexivity).
  unfold number. rewrite (filter_combine_select F). unfold F.
  rewrite <- Nat2Z.inj_mul, cell_pairs_length, <- mask_bits_testbit by exact Rc.
  reflexivity.
Qed.

Lemma cells_map {A B C D} (f:A -> C) (g:B -> D) sats sigs c :
  cells (map f sats) (map g sigs) c = map (fun '(s, x) => (f s, g x)) (cells sats sigs c).
Proof.
  unfold cells. rewrite cell_pairs_map, select_map, !map_length.
  apply map_ext. intros [s x]. reflexivity.
Qed.

(* the two scan loops of _getsatcellmaps *)
Lemma scan_sat a : 0 <= a < 2^64 -> filter (fun idx => Z.testbit a (64 - idx)) (zrange 65) = sat_ids a.
Proof. exact (scan_positions 64 64 a eq_refl). Qed.
Lemma scan_sig b : 0 <= b < 2^32 -> filter (fun idx => Z.testbit b (32 - idx)) (zrange 33) = sig_ids b.
Proof. exact (scan_positions 32 32 b eq_refl). Qed.

Section Maps.
Variable T : tables.

Theorem getsatcellmaps_spec ident o a b c prnmap sigmap :
  getint o "DF394" = Ok a -> getint o "DF395" = Ok b -> getint o "DF396" = Ok c ->
  assoc (substring 0 3 ident) (t_prnsig T) = Some (prnmap, sigmap) ->
  0 <= a < 2^64 -> 0 <= b < 2^32 -> 0 <= c ->
  getsatcellmaps T ident o =
  Ok (with_maps o (spec_satmap prnmap (t_na T) a)
                  (spec_cellmap prnmap sigmap (t_na T) (negb (o_labelmsm o =? 2)) a b c)).
Proof.
  intros Ha Hb Hc Hk Ra Rb Rc. unfold getsatcellmaps. rewrite Hk, Ha, Hb, Hc. cbn [obind].
  rewrite (scan_sat a Ra), (scan_sig b Rb).
  rewrite (map_ext _ (prn_label prnmap (t_na T)) (prn_label_zassoc prnmap (t_na T))).
  rewrite (map_ext _ (sig_label sigmap (t_na T) (negb (o_labelmsm o =? 2)))
                     (sig_label_zassoc sigmap (t_na T) (negb (o_labelmsm o =? 2)))).
  rewrite cellmap_build by exact Rc.
  rewrite number_eq, cells_map. unfold spec_satmap, spec_cellmap. reflexivity.
Qed.
End Maps.

(* ====================== consequences: counts ====================== *)
Theorem satmap_length prnmap na a : List.length (spec_satmap prnmap na a) = List.length (sat_ids a).
Proof. unfold spec_satmap. now rewrite number_length, map_length. Qed.

Lemma cells_length {A B} (sats:list A) (sigs:list B) c :
  List.length (cells sats sigs c) = List.length (positions (mask_bits (List.length sats * List.length sigs) c)).
Proof.
  unfold cells. apply select_length. unfold mask_bits. now rewrite bits_of_length, cell_pairs_length.
Qed.

Theorem cellmap_length prnmap sigmap na rinex a b c :
  List.length (spec_cellmap prnmap sigmap na rinex a b c) =
  List.length (positions (mask_bits (List.length (sat_ids a) * List.length (sig_ids b)) c)).
Proof. unfold spec_cellmap. now rewrite number_length, map_length, cells_length. Qed.

(* NSat, NSig: set_single stores popcount of the decoded mask bits *)
Theorem nsat_popcount prnmap na a : 0 <= a < 2^64 ->
  popcount (Z.to_N a) = Z.of_nat (List.length (spec_satmap prnmap na a)).
Proof.
  intro Ra. rewrite satmap_length. unfold sat_ids, mask_bits.
  apply popcount_positions. apply (to_N_lt_pow2 a 64). exact Ra.
Qed.

Theorem nsig_popcount b : 0 <= b < 2^32 -> popcount (Z.to_N b) = Z.of_nat (List.length (sig_ids b)).
Proof.
  intro Rb. unfold sig_ids, mask_bits. apply popcount_positions. apply (to_N_lt_pow2 b 32). exact Rb.
Qed.

(* NCell: the decoded DF396 has exactly NSat*NSig bits *)
Theorem ncell_popcount prnmap sigmap na rinex a b c :
  0 <= c < 2^Z.of_nat (List.length (sat_ids a) * List.length (sig_ids b)) ->
  popcount (Z.to_N c) = Z.of_nat (List.length (spec_cellmap prnmap sigmap na rinex a b c)).
Proof.
  intro Rc. rewrite cellmap_length. unfold mask_bits. apply popcount_positions. now apply to_N_lt_pow2.
Qed.

(* a DF396 value wider than NSat*NSig bits (cannot be decoded, but harmless): the excess high bits are ignored *)
Theorem cellmap_low_bits prnmap sigmap na rinex a b c : 0 <= c ->
  spec_cellmap prnmap sigmap na rinex a b (c mod 2^Z.of_nat (List.length (sat_ids a) * List.length (sig_ids b)))
  = spec_cellmap prnmap sigmap na rinex a b c.
Proof. intro Rc. unfold spec_cellmap, cells. now rewrite mask_bits_mod. Qed.

Theorem ncell_popcount_low prnmap sigmap na rinex a b c : 0 <= c ->
  popcount (Z.to_N (c mod 2^Z.of_nat (List.length (sat_ids a) * List.length (sig_ids b))))
  = Z.of_nat (List.length (spec_cellmap prnmap sigmap na rinex a b c)).
Proof.
  intro Rc. rewrite <- (cellmap_low_bits prnmap sigmap na rinex a b c Rc).
  apply ncell_popcount. apply Z.mod_pos_bound. apply Z.pow_pos_nonneg; lia.
Qed.

(* ids found by the scans are in range *)
Lemma positions_mask_range w m id : In id (positions (mask_bits w m)) -> 1 <= id <= Z.of_nat w.
Proof. intro H. apply positions_range in H. unfold mask_bits in H. now rewrite bits_of_length in H. Qed.
Theorem sat_ids_range a id : In id (sat_ids a) -> 1 <= id <= 64.
Proof. exact (positions_mask_range 64 a id). Qed.
Theorem sig_ids_range b id : In id (sig_ids b) -> 1 <= id <= 32.
Proof. exact (positions_mask_range 32 b id). Qed.

(* ====================== consequences: the i-th entry ====================== *)
(* satellite entry k+1 is labelled with the PRN of the (k+1)-th set bit of DF394, counted from the MSB *)
Theorem satmap_nth prnmap na a (k:nat) : (k < List.length (sat_ids a))%nat ->
  zassoc (Z.of_nat k + 1) (spec_satmap prnmap na a) = Some (prn_label prnmap na (nth k (sat_ids a) 0)).
Proof.
  intro H. unfold spec_satmap. rewrite (zassoc_number_nth _ k (prn_label prnmap na 0)) by (now rewrite map_length).
  now rewrite map_nth.
Qed.

Theorem satmap_outside prnmap na a i : i < 1 \/ Z.of_nat (List.length (sat_ids a)) < i ->
  zassoc i (spec_satmap prnmap na a) = None.
Proof. intro H. unfold spec_satmap. apply zassoc_number_none. now rewrite map_length. Qed.

(* the k-th selected cell (0-based k) is the grid entry under the k-th set bit; in the satellite-major grid
   that entry is (satellite q / nsig, signal q mod nsig) for the 0-based bit index q *)
Lemma cells_nth {A B} (sats:list A) (sigs:list B) c (k:nat) ds dg :
  (k < List.length (positions (mask_bits (List.length sats * List.length sigs) c)))%nat ->
  let q := Z.to_nat (nth k (positions (mask_bits (List.length sats * List.length sigs) c)) 0 - 1) in
  (q < List.length sats * List.length sigs)%nat /\
  nth k (cells sats sigs c) (ds, dg) = (nth (q / List.length sigs) sats ds, nth (q mod List.length sigs) sigs dg).
Proof.
  intros Hk q.
  set (bs := mask_bits (List.length sats * List.length sigs) c) in *.
  assert (Lb: List.length bs = (List.length sats * List.length sigs)%nat) by (unfold bs, mask_bits; apply bits_of_length).
  assert (Hq: (q < List.length sats * List.length sigs)%nat).
  { pose proof (positions_range bs _ (nth_In _ 0 Hk)) as R. unfold q. lia. }
  split; [exact Hq|].
  unfold cells. fold bs. rewrite (select_positions bs _ (ds, dg)) by (rewrite cell_pairs_length; lia).
  set (f := fun p => nth (Z.to_nat (p - 1)) (cell_pairs sats sigs) (ds, dg)).
  rewrite (nth_indep _ _ (f 0)) by (now rewrite map_length). rewrite map_nth. unfold f. fold q.
  now apply cell_pairs_nth.
Qed.

Theorem cellmap_nth prnmap sigmap na rinex a b c (k:nat) :
  let nsat := List.length (sat_ids a) in
  let nsig := List.length (sig_ids b) in
  let setbits := positions (mask_bits (nsat * nsig) c) in
  (k < List.length setbits)%nat ->
  let q := Z.to_nat (nth k setbits 0 - 1) in            (* 0-based index of the (k+1)-th set bit of DF396 *)
  (q / nsig < nsat)%nat /\ (q mod nsig < nsig)%nat /\
  zassoc (Z.of_nat k + 1) (spec_cellmap prnmap sigmap na rinex a b c) =
    Some (prn_label prnmap na (nth (q / nsig) (sat_ids a) 0),
          sig_label sigmap na rinex (nth (q mod nsig) (sig_ids b) 0)).
Proof.
  intros nsat nsig setbits Hk q.
  destruct (cells_nth (sat_ids a) (sig_ids b) c k 0 0 Hk) as [Hq Hn]. fold nsat nsig setbits q in Hq, Hn.
  assert (N0: nsig <> O) by (intro E; rewrite E in Hq; lia).
  split; [apply Nat.div_lt_upper_bound; [exact N0|lia]|].
  split; [now apply Nat.mod_upper_bound|].
  unfold spec_cellmap.
  set (F := fun '(s, g) => (prn_label prnmap na s, sig_label sigmap na rinex g)).
  rewrite (zassoc_number_nth _ k (F (0, 0))) by (rewrite map_length, cells_length; exact Hk).
  rewrite map_nth, Hn. reflexivity.
Qed.

Theorem cellmap_outside prnmap sigmap na rinex a b c i :
  i < 1 \/ Z.of_nat (List.length (positions (mask_bits (List.length (sat_ids a) * List.length (sig_ids b)) c))) < i ->
  zassoc i (spec_cellmap prnmap sigmap na rinex a b c) = None.
Proof. intro H. unfold spec_cellmap. apply zassoc_number_none. now rewrite map_length, cells_length. Qed.

(* ====================== labels ====================== *)
Lemma zlookup_absent {A} id (tab:list (Z*A)) : ~ In id (map fst tab) -> zlookup id tab = None.
Proof.
  unfold zlookup. induction tab as [|[k v] tab IH]; intro H; [reflexivity|].
  cbn [find fst]. destruct (Z.eqb_spec k id) as [E|E].
  - exfalso. apply H. left. exact E.
  - apply IH. intro H'. apply H. right. exact H'.
Qed.

(* an id the constellation's table does not define is labelled exactly NA, under both label options *)
Theorem label_default prnmap sigmap na id :
  (~ In id (map fst prnmap) -> prn_label prnmap na id = na) /\
  (~ In id (map fst sigmap) -> forall rinex, sig_label sigmap na rinex id = na).
Proof.
  split.
  - intro H. unfold prn_label. now rewrite zlookup_absent.
  - intros H rinex. unfold sig_label. now rewrite zlookup_absent.
Qed.

Theorem label_default_zassoc prnmap sigmap na id :
  (zassoc id prnmap = None -> prn_label prnmap na id = na) /\
  (zassoc id sigmap = None -> forall rinex, sig_label sigmap na rinex id = na).
Proof.
  split.
  - intro H. unfold prn_label. now rewrite <- zassoc_zlookup, H.
  - intros H rinex. unfold sig_label. now rewrite <- zassoc_zlookup, H.
Qed.

Theorem label_defined prnmap sigmap na id :
  (forall s, zassoc id prnmap = Some s -> prn_label prnmap na id = s) /\
  (forall band code, zassoc id sigmap = Some (band, code) ->
     sig_label sigmap na true id = code /\ sig_label sigmap na false id = band).
Proof.
  split.
  - intros s H. unfold prn_label. now rewrite <- zassoc_zlookup, H.
  - intros band code H. unfold sig_label. now rewrite <- zassoc_zlookup, H.
Qed.

(* ====================== the PRN / CELLPRN / CELLSIG pseudo-fields in _set_attribute_single ====================== *)
Section SetSingle.
Variable T : tables.
Local Open Scope string_scope.

(* field names without a side effect in _set_attribute_single (the derived label fields are "PRN", "CELLPRN", "CELLSIG") *)
Definition plain_name (anam:string) : Prop :=
  anam <> "DF394" /\ anam <> "DF395" /\ anam <> "DF396" /\ anam <> "IDF038".

(* the label a derived field of type ty takes: a pure dictionary lookup at index[0] *)
Definition label_of (ty:dtype) (o:obj) (index:list Z) : outcome string :=
  do i <- first_index index;
  match ty with
  | TPRN => match o_satmap o with None => Foreign XType | Some m =>
              match zassoc i m with Some x => Ok x | None => Foreign XKey end end
  | TCPR => match o_cellmap o with None => Foreign XType | Some m =>
              match zassoc i m with Some x => Ok (fst x) | None => Foreign XKey end end
  | TCSG => match o_cellmap o with None => Foreign XType | Some m =>
              match zassoc i m with Some x => Ok (snd x) | None => Foreign XKey end end
  | _ => Foreign XOther
  end.

Lemma set_single_label ident anam index fd o offset :
  find_field T anam = Some fd -> (df_ty fd = TPRN \/ df_ty fd = TCPR \/ df_ty fd = TCSG) -> plain_name anam ->
  set_single T ident anam index (o, offset) =
  (do x <- label_of (df_ty fd) o index;
   do o1 <- setattr o (render_name anam index) (VStr (codes x));
   Ok (o1, offset + df_bits fd)).
Proof.
  intros Hf Hty (N1 & N2 & N3 & N4).
  apply String.eqb_neq in N1, N2, N3, N4.
  unfold set_single. rewrite Hf, N1, N2, N3, N4. cbn [obind orb].
  unfold label_of.
  destruct Hty as [E|[E|E]]; rewrite E; destruct (first_index index) as [i| | |]; cbn [obind]; try reflexivity.
  - destruct (o_satmap o) as [m|]; [destruct (zassoc i m)|]; reflexivity.
  - destruct (o_cellmap o) as [m|]; [destruct (zassoc i m)|]; reflexivity.
  - destruct (o_cellmap o) as [m|]; [destruct (zassoc i m)|]; reflexivity.
Qed.

(* what storing a label does: one attribute written under the indexed name; the bit offset advances by the
   field's declared width (0 for the derived label fields: see label_fields_zero_width in Spec/Pinned.v) *)
Definition stored (o:obj) (anam:string) (index:list Z) (label:string) : obj :=
  with_attrs o (upd (render_name anam index) (VStr (codes label)) (o_attrs o)).

Lemma set_single_label_ok ident anam index fd o offset x :
  find_field T anam = Some fd -> (df_ty fd = TPRN \/ df_ty fd = TCPR \/ df_ty fd = TCSG) -> plain_name anam ->
  o_immutable o = false -> label_of (df_ty fd) o index = Ok x ->
  set_single T ident anam index (o, offset) = Ok (stored o anam index x, offset + df_bits fd).
Proof.
  intros Hf Hty Hn Him Hl. rewrite (set_single_label ident anam index fd o offset Hf Hty Hn), Hl.
  cbn [obind]. unfold setattr. rewrite Him. reflexivity.
Qed.

(* converse: whenever the call succeeds, the value stored is the label found in the map, nothing else *)
Lemma set_single_label_inv ident anam index fd o offset r :
  find_field T anam = Some fd -> (df_ty fd = TPRN \/ df_ty fd = TCPR \/ df_ty fd = TCSG) -> plain_name anam ->
  set_single T ident anam index (o, offset) = Ok r ->
  exists x, label_of (df_ty fd) o index = Ok x /\ o_immutable o = false /\
            r = (stored o anam index x, offset + df_bits fd).
Proof.
  intros Hf Hty Hn H. rewrite (set_single_label ident anam index fd o offset Hf Hty Hn) in H.
  destruct (label_of (df_ty fd) o index) as [x| | |]; cbn [obind] in H; try discriminate.
  unfold setattr in H. destruct (o_immutable o); cbn [obind] in H; [discriminate|].
  exists x. repeat split. now inversion H.
Qed.

(* ---------- PRN ---------- *)
Theorem set_single_prn ident anam index fd o offset i rest m x :
  find_field T anam = Some fd -> df_ty fd = TPRN -> plain_name anam ->
  index = i :: rest -> o_immutable o = false -> o_satmap o = Some m -> zassoc i m = Some x ->
  set_single T ident anam index (o, offset) = Ok (stored o anam index x, offset + df_bits fd).
Proof.
  intros Hf Hty Hn Hi Him Hm Hx. apply set_single_label_ok; auto.
  rewrite Hty, Hi. unfold label_of. cbn [first_index obind]. now rewrite Hm, Hx.
Qed.

Theorem set_single_prn_fail ident anam index fd o offset :
  find_field T anam = Some fd -> df_ty fd = TPRN -> plain_name anam ->
  (index = [] -> set_single T ident anam index (o, offset) = Foreign XIndex) /\
  (forall i rest, index = i :: rest -> o_satmap o = None ->
     set_single T ident anam index (o, offset) = Foreign XType) /\
  (forall i rest m, index = i :: rest -> o_satmap o = Some m -> zassoc i m = None ->
     set_single T ident anam index (o, offset) = Foreign XKey).
Proof.
  intros Hf Hty Hn.
  rewrite (set_single_label ident anam index fd o offset Hf (or_introl Hty) Hn), Hty. unfold label_of.
  repeat split.
  - intros ->. reflexivity.
  - intros i rest -> Hm. cbn [first_index obind]. now rewrite Hm.
  - intros i rest m -> Hm Hx. cbn [first_index obind]. now rewrite Hm, Hx.
Qed.

Theorem set_single_prn_inv ident anam index fd o offset r :
  find_field T anam = Some fd -> df_ty fd = TPRN -> plain_name anam ->
  set_single T ident anam index (o, offset) = Ok r ->
  exists i rest m x, index = i :: rest /\ o_satmap o = Some m /\ zassoc i m = Some x /\
                     o_immutable o = false /\ r = (stored o anam index x, offset + df_bits fd).
Proof.
  intros Hf Hty Hn H.
  destruct (set_single_label_inv ident anam index fd o offset r Hf (or_introl Hty) Hn H) as (x & Hl & Him & Hr).
  rewrite Hty in Hl. unfold label_of in Hl.
  destruct index as [|i rest]; [discriminate|]. cbn [first_index obind] in Hl.
  destruct (o_satmap o) as [m|]; [|discriminate].
  destruct (zassoc i m) as [y|] eqn:Hy; [|discriminate].
  inversion Hl; subst y. exists i, rest, m, x. auto.
Qed.

(* ---------- CELLPRN ---------- *)
Theorem set_single_cpr ident anam index fd o offset i rest m x :
  find_field T anam = Some fd -> df_ty fd = TCPR -> plain_name anam ->
  index = i :: rest -> o_immutable o = false -> o_cellmap o = Some m -> zassoc i m = Some x ->
  set_single T ident anam index (o, offset) = Ok (stored o anam index (fst x), offset + df_bits fd).
Proof.
  intros Hf Hty Hn Hi Him Hm Hx. apply set_single_label_ok; auto.
  rewrite Hty, Hi. unfold label_of. cbn [first_index obind]. now rewrite Hm, Hx.
Qed.

Theorem set_single_cpr_fail ident anam index fd o offset :
  find_field T anam = Some fd -> df_ty fd = TCPR -> plain_name anam ->
  (index = [] -> set_single T ident anam index (o, offset) = Foreign XIndex) /\
  (forall i rest, index = i :: rest -> o_cellmap o = None ->
     set_single T ident anam index (o, offset) = Foreign XType) /\
  (forall i rest m, index = i :: rest -> o_cellmap o = Some m -> zassoc i m = None ->
     set_single T ident anam index (o, offset) = Foreign XKey).
Proof.
  intros Hf Hty Hn.
  rewrite (set_single_label ident anam index fd o offset Hf (or_intror (or_introl Hty)) Hn), Hty. unfold label_of.
  repeat split.
  - intros ->. reflexivity.
  - intros i rest -> Hm. cbn [first_index obind]. now rewrite Hm.
  - intros i rest m -> Hm Hx. cbn [first_index obind]. now rewrite Hm, Hx.
Qed.

Theorem set_single_cpr_inv ident anam index fd o offset r :
  find_field T anam = Some fd -> df_ty fd = TCPR -> plain_name anam ->
  set_single T ident anam index (o, offset) = Ok r ->
  exists i rest m x, index = i :: rest /\ o_cellmap o = Some m /\ zassoc i m = Some x /\
                     o_immutable o = false /\ r = (stored o anam index (fst x), offset + df_bits fd).
Proof.
  intros Hf Hty Hn H.
  destruct (set_single_label_inv ident anam index fd o offset r Hf (or_intror (or_introl Hty)) Hn H) as (x & Hl & Him & Hr).
  rewrite Hty in Hl. unfold label_of in Hl.
  destruct index as [|i rest]; [discriminate|]. cbn [first_index obind] in Hl.
  destruct (o_cellmap o) as [m|]; [|discriminate].
  destruct (zassoc i m) as [y|] eqn:Hy; [|discriminate].
  inversion Hl; subst x. exists i, rest, m, y. auto.
Qed.

(* ---------- CELLSIG ---------- *)
Theorem set_single_csg ident anam index fd o offset i rest m x :
  find_field T anam = Some fd -> df_ty fd = TCSG -> plain_name anam ->
  index = i :: rest -> o_immutable o = false -> o_cellmap o = Some m -> zassoc i m = Some x ->
  set_single T ident anam index (o, offset) = Ok (stored o anam index (snd x), offset + df_bits fd).
Proof.
  intros Hf Hty Hn Hi Him Hm Hx. apply set_single_label_ok; auto.
  rewrite Hty, Hi. unfold label_of. cbn [first_index obind]. now rewrite Hm, Hx.
Qed.

Theorem set_single_csg_fail ident anam index fd o offset :
  find_field T anam = Some fd -> df_ty fd = TCSG -> plain_name anam ->
  (index = [] -> set_single T ident anam index (o, offset) = Foreign XIndex) /\
  (forall i rest, index = i :: rest -> o_cellmap o = None ->
     set_single T ident anam index (o, offset) = Foreign XType) /\
  (forall i rest m, index = i :: rest -> o_cellmap o = Some m -> zassoc i m = None ->
     set_single T ident anam index (o, offset) = Foreign XKey).
Proof.
  intros Hf Hty Hn.
  rewrite (set_single_label ident anam index fd o offset Hf (or_intror (or_intror Hty)) Hn), Hty. unfold label_of.
  repeat split.
  - intros ->. reflexivity.
  - intros i rest -> Hm. cbn [first_index obind]. now rewrite Hm.
  - intros i rest m -> Hm Hx. cbn [first_index obind]. now rewrite Hm, Hx.
Qed.

Theorem set_single_csg_inv ident anam index fd o offset r :
  find_field T anam = Some fd -> df_ty fd = TCSG -> plain_name anam ->
  set_single T ident anam index (o, offset) = Ok r ->
  exists i rest m x, index = i :: rest /\ o_cellmap o = Some m /\ zassoc i m = Some x /\
                     o_immutable o = false /\ r = (stored o anam index (snd x), offset + df_bits fd).
Proof.
  intros Hf Hty Hn H.
  destruct (set_single_label_inv ident anam index fd o offset r Hf (or_intror (or_intror Hty)) Hn H) as (x & Hl & Him & Hr).
  rewrite Hty in Hl. unfold label_of in Hl.
  destruct index as [|i rest]; [discriminate|]. cbn [first_index obind] in Hl.
  destruct (o_cellmap o) as [m|]; [|discriminate].
  destruct (zassoc i m) as [y|] eqn:Hy; [|discriminate].
  inversion Hl; subst x. exists i, rest, m, y. auto.
Qed.
End SetSingle.

Section Masks.
Variable T : tables.
Local Open Scope string_scope.

Lemma get_bits_lt p L off w bits : get_bits p L off w = Ok bits -> (bits < 2^Z.to_N w)%N.
Proof.
  unfold get_bits. destruct ((L - off - w <? 0)%Z || (w <? 0)%Z); [discriminate|].
  intro H. inversion H. rewrite N.land_ones. apply N.mod_lt. apply N.pow_nonzero. discriminate.
Qed.

(* DF394 / DF395: the decoded mask bits are stored (scaled by the table's resolution, 0 = none) and NSat / NSig
   is set to their popcount; with popcount_positions and get_bits_lt that is the number of ids in the mask *)
Theorem set_single_df394 ident index fd o offset o' off' :
  find_field T "DF394" = Some fd -> df_ty fd = TBIT ->
  set_single T ident "DF394" index (o, offset) = Ok (o', off') ->
  exists bits v,
    get_bits (o_payloadi o) (8 * Z.of_nat (List.length (o_payload o))) offset (df_bits fd) = Ok bits /\
    scale (Z.of_N bits) (df_res fd) = Ok v /\
    o' = with_attrs o (upd (t_nsat T) (VInt (popcount bits)) (upd (render_name "DF394" index) v (o_attrs o))) /\
    off' = offset + df_bits fd.
Proof.
  intros Hf Hty H. unfold set_single in H. rewrite Hf, Hty in H.
  change ("DF394" =? "DF396") with false in H. change ("DF394" =? "DF394") with true in H.
  change ("DF394" =? "IDF038") with false in H. cbn [obind orb] in H.
  destruct (get_bits _ _ _ _) as [bits| | |] eqn:Hgb; cbn [obind] in H; try discriminate.
  destruct (scale _ _) as [v| | |] eqn:Hsc; cbn [obind] in H; try discriminate.
  unfold setattr in H. destruct (o_immutable o) eqn:Him; cbn [obind] in H; [discriminate|].
  cbn [with_attrs o_immutable] in H. rewrite Him in H. cbn [obind] in H.
  exists bits, v. inversion H. repeat split; assumption.
Qed.

Theorem set_single_df395 ident index fd o offset o' off' :
  find_field T "DF395" = Some fd -> df_ty fd = TBIT ->
  set_single T ident "DF395" index (o, offset) = Ok (o', off') ->
  exists bits v,
    get_bits (o_payloadi o) (8 * Z.of_nat (List.length (o_payload o))) offset (df_bits fd) = Ok bits /\
    scale (Z.of_N bits) (df_res fd) = Ok v /\
    o' = with_attrs o (upd (t_nsig T) (VInt (popcount bits)) (upd (render_name "DF395" index) v (o_attrs o))) /\
    off' = offset + df_bits fd.
Proof.
  intros Hf Hty H. unfold set_single in H. rewrite Hf, Hty in H.
  change ("DF395" =? "DF396") with false in H. change ("DF395" =? "DF394") with false in H.
  change ("DF395" =? "DF395") with true in H.
  change ("DF395" =? "IDF038") with false in H. cbn [obind orb] in H.
  destruct (get_bits _ _ _ _) as [bits| | |] eqn:Hgb; cbn [obind] in H; try discriminate.
  destruct (scale _ _) as [v| | |] eqn:Hsc; cbn [obind] in H; try discriminate.
  unfold setattr in H. destruct (o_immutable o) eqn:Him; cbn [obind] in H; [discriminate|].
  cbn [with_attrs o_immutable] in H. rewrite Him in H. cbn [obind] in H.
  exists bits, v. inversion H. repeat split; assumption.
Qed.

(* DF396: width NSat*NSig, NCell := popcount, then the maps are built from the three stored masks *)
Theorem set_single_df396 ident index fd o offset o' off' :
  find_field T "DF396" = Some fd -> df_ty fd = TBITX ->
  set_single T ident "DF396" index (o, offset) = Ok (o', off') ->
  exists nsat nsig bits v,
    getint o (t_nsat T) = Ok nsat /\ getint o (t_nsig T) = Ok nsig /\
    get_bits (o_payloadi o) (8 * Z.of_nat (List.length (o_payload o))) offset (nsat * nsig) = Ok bits /\
    scale (Z.of_N bits) (df_res fd) = Ok v /\
    getsatcellmaps T ident
      (with_attrs o (upd (t_ncell T) (VInt (popcount bits)) (upd (render_name "DF396" index) v (o_attrs o)))) = Ok o' /\
    off' = offset + nsat * nsig.
Proof.
  intros Hf Hty H. unfold set_single in H. rewrite Hf, Hty in H.
  change ("DF396" =? "DF396") with true in H. change ("DF396" =? "DF394") with false in H.
  change ("DF396" =? "DF395") with false in H.
  change ("DF396" =? "IDF038") with false in H. cbn [obind orb] in H.
  destruct (getint o (t_nsat T)) as [nsat| | |] eqn:Hns; cbn [obind] in H; try discriminate.
  destruct (getint o (t_nsig T)) as [nsig| | |] eqn:Hng; cbn [obind] in H; try discriminate.
  destruct (get_bits _ _ _ _) as [bits| | |] eqn:Hgb; cbn [obind] in H; try discriminate.
  destruct (scale _ _) as [v| | |] eqn:Hsc; cbn [obind] in H; try discriminate.
  unfold setattr in H. destruct (o_immutable o) eqn:Him; cbn [obind] in H; [discriminate|].
  cbn [with_attrs o_immutable] in H. rewrite Him in H. cbn [obind] in H.
  destruct (getsatcellmaps T ident _) as [o2| | |] eqn:Hg; cbn [obind] in H; try discriminate.
  exists nsat, nsig, bits, v. inversion H. subst. repeat split; assumption.
Qed.
End Masks.

(* ====================== end to end ====================== *)
Section EndToEnd.
Variable T : tables.

Corollary getsatcellmaps_components ident o a b c prnmap sigmap :
  getint o "DF394" = Ok a -> getint o "DF395" = Ok b -> getint o "DF396" = Ok c ->
  assoc (substring 0 3 ident) (t_prnsig T) = Some (prnmap, sigmap) ->
  0 <= a < 2^64 -> 0 <= b < 2^32 -> 0 <= c ->
  exists o', getsatcellmaps T ident o = Ok o' /\
    o_satmap o' = Some (number (map (prn_label prnmap (t_na T)) (sat_ids a))) /\
    o_cellmap o' = Some (number (map (fun '(s, g) => (prn_label prnmap (t_na T) s,
                                                       sig_label sigmap (t_na T) (negb (o_labelmsm o =? 2)) g))
                                     (cells (sat_ids a) (sig_ids b) c))) /\
    o_immutable o' = o_immutable o /\ o_payload o' = o_payload o /\ o_payloadi o' = o_payloadi o /\
    o_labelmsm o' = o_labelmsm o /\ o_unknown o' = o_unknown o /\ o_attrs o' = o_attrs o.
Proof.
  intros Ha Hb Hc Hk Ra Rb Rc. eexists. split.
  - apply (getsatcellmaps_spec T ident o a b c prnmap sigmap); assumption.
  - repeat split.
Qed.

Theorem getsatcellmaps_no_table ident o :
  assoc (substring 0 3 ident) (t_prnsig T) = None -> getsatcellmaps T ident o = Foreign XKey.
Proof. intro H. unfold getsatcellmaps. now rewrite H. Qed.

(* PRN_k: the label of the k-th set bit of the satellite mask (k = index[0], 1-based) *)
Theorem set_single_prn_msm ident anam index fd o offset prnmap a (k:nat) rest :
  find_field T anam = Some fd -> df_ty fd = TPRN -> plain_name anam -> o_immutable o = false ->
  o_satmap o = Some (spec_satmap prnmap (t_na T) a) ->
  index = (Z.of_nat k + 1) :: rest -> (k < List.length (sat_ids a))%nat ->
  set_single T ident anam index (o, offset) =
  Ok (stored o anam index (prn_label prnmap (t_na T) (nth k (sat_ids a) 0)), offset + df_bits fd).
Proof.
  intros Hf Hty Hn Him Hm Hi Hk.
  apply (set_single_prn T ident anam index fd o offset _ rest _ _ Hf Hty Hn Hi Him Hm).
  now apply satmap_nth.
Qed.

Theorem set_single_prn_msm_outside ident anam index fd o offset prnmap a i rest :
  find_field T anam = Some fd -> df_ty fd = TPRN -> plain_name anam ->
  o_satmap o = Some (spec_satmap prnmap (t_na T) a) ->
  index = i :: rest -> (i < 1 \/ Z.of_nat (List.length (sat_ids a)) < i) ->
  set_single T ident anam index (o, offset) = Foreign XKey.
Proof.
  intros Hf Hty Hn Hm Hi Hr.
  destruct (set_single_prn_fail T ident anam index fd o offset Hf Hty Hn) as (_ & _ & F).
  apply (F i rest _ Hi Hm). now apply satmap_outside.
Qed.

(* CELLPRN_k / CELLSIG_k: satellite and signal of the k-th set bit of the cell mask, satellite-major *)
Theorem set_single_cpr_msm ident anam index fd o offset prnmap sigmap rinex a b c (k:nat) rest :
  find_field T anam = Some fd -> df_ty fd = TCPR -> plain_name anam -> o_immutable o = false ->
  o_cellmap o = Some (spec_cellmap prnmap sigmap (t_na T) rinex a b c) ->
  let nsig := List.length (sig_ids b) in
  let setbits := positions (mask_bits (List.length (sat_ids a) * nsig) c) in
  index = (Z.of_nat k + 1) :: rest -> (k < List.length setbits)%nat ->
  let q := Z.to_nat (nth k setbits 0 - 1) in
  set_single T ident anam index (o, offset) =
  Ok (stored o anam index (prn_label prnmap (t_na T) (nth (q / nsig) (sat_ids a) 0)), offset + df_bits fd).
Proof.
  intros Hf Hty Hn Him Hm nsig setbits Hi Hk q.
  destruct (cellmap_nth prnmap sigmap (t_na T) rinex a b c k Hk) as (_ & _ & Hz).
  apply (set_single_cpr T ident anam index fd o offset _ rest _ _ Hf Hty Hn Hi Him Hm Hz).
Qed.

Theorem set_single_csg_msm ident anam index fd o offset prnmap sigmap rinex a b c (k:nat) rest :
  find_field T anam = Some fd -> df_ty fd = TCSG -> plain_name anam -> o_immutable o = false ->
  o_cellmap o = Some (spec_cellmap prnmap sigmap (t_na T) rinex a b c) ->
  let nsig := List.length (sig_ids b) in
  let setbits := positions (mask_bits (List.length (sat_ids a) * nsig) c) in
  index = (Z.of_nat k + 1) :: rest -> (k < List.length setbits)%nat ->
  let q := Z.to_nat (nth k setbits 0 - 1) in
  set_single T ident anam index (o, offset) =
  Ok (stored o anam index (sig_label sigmap (t_na T) rinex (nth (q mod nsig) (sig_ids b) 0)), offset + df_bits fd).
Proof.
  intros Hf Hty Hn Him Hm nsig setbits Hi Hk q.
  destruct (cellmap_nth prnmap sigmap (t_na T) rinex a b c k Hk) as (_ & _ & Hz).
  apply (set_single_csg T ident anam index fd o offset _ rest _ _ Hf Hty Hn Hi Him Hm Hz).
Qed.

Theorem set_single_cell_msm_outside ident anam index fd o offset prnmap sigmap rinex a b c i rest :
  find_field T anam = Some fd -> (df_ty fd = TCPR \/ df_ty fd = TCSG) -> plain_name anam ->
  o_cellmap o = Some (spec_cellmap prnmap sigmap (t_na T) rinex a b c) ->
  index = i :: rest ->
  (i < 1 \/ Z.of_nat (List.length (positions (mask_bits (List.length (sat_ids a) * List.length (sig_ids b)) c))) < i) ->
  set_single T ident anam index (o, offset) = Foreign XKey.
Proof.
  intros Hf Hty Hn Hm Hi Hr. pose proof (cellmap_outside prnmap sigmap (t_na T) rinex a b c i Hr) as Hz.
  destruct Hty as [Hty|Hty].
  - destruct (set_single_cpr_fail T ident anam index fd o offset Hf Hty Hn) as (_ & _ & F). exact (F i rest _ Hi Hm Hz).
  - destruct (set_single_csg_fail T ident anam index fd o offset Hf Hty Hn) as (_ & _ & F). exact (F i rest _ Hi Hm Hz).
Qed.

(* ---------- the labels are the standard's, once the per-run table check has passed ---------- *)
Lemma select_In {A} bs (l:list A) x : In x (select bs l) -> In x l.
Proof.
  revert l. induction bs as [|b bs IH]; intros [|y l] H; simpl in H; try contradiction.
  destruct b; [destruct H as [H|H]; [now left|]|]; right; now apply IH.
Qed.

Lemma cells_In {A B} (sats:list A) (sigs:list B) c s g : In (s, g) (cells sats sigs c) -> In s sats /\ In g sigs.
Proof.
  intro H. apply select_In in H. unfold cell_pairs in H. apply in_flat_map in H.
  destruct H as (s' & Hs & H). apply in_map_iff in H. destruct H as (g' & E & Hg). inversion E; subst. auto.
Qed.

Theorem pinned_labels k : prnsig_matches (t_prnsig T) = true -> In k pinned_keys ->
  exists prnmap sigmap pp ps,
    assoc k (t_prnsig T) = Some (prnmap, sigmap) /\ assoc k pinned_prn = Some pp /\ assoc k pinned_sig = Some ps /\
    forall na,
      (forall id, 0 <= id <= 64 -> prn_label prnmap na id = prn_label pp na id) /\
      (forall id rinex, 0 <= id <= 32 -> sig_label sigmap na rinex id = sig_label ps na rinex id).
Proof.
  intros Hm Hk. destruct (prnsig_matches_sound _ Hm k Hk) as (pm & sm & pp & ps & H1 & H2 & H3 & H4 & H5).
  exists pm, sm, pp, ps. repeat split; auto.
  - intros id Hid. unfold prn_label. now rewrite <- !zassoc_zlookup, H4.
  - intros id rinex Hid. unfold sig_label. now rewrite <- !zassoc_zlookup, H5.
Qed.

Theorem getsatcellmaps_pinned ident o a b c :
  prnsig_matches (t_prnsig T) = true -> In (substring 0 3 ident) pinned_keys ->
  getint o "DF394" = Ok a -> getint o "DF395" = Ok b -> getint o "DF396" = Ok c ->
  0 <= a < 2^64 -> 0 <= b < 2^32 -> 0 <= c ->
  exists pp ps,
    assoc (substring 0 3 ident) pinned_prn = Some pp /\ assoc (substring 0 3 ident) pinned_sig = Some ps /\
    getsatcellmaps T ident o =
    Ok (with_maps o (spec_satmap pp (t_na T) a) (spec_cellmap pp ps (t_na T) (negb (o_labelmsm o =? 2)) a b c)).
Proof.
  intros Hm Hk Ha Hb Hc Ra Rb Rc.
  destruct (pinned_labels _ Hm Hk) as (pm & sm & pp & ps & H1 & H2 & H3 & HL).
  destruct (HL (t_na T)) as [Lp Ls].
  exists pp, ps. split; [exact H2|]. split; [exact H3|].
  rewrite (getsatcellmaps_spec T ident o a b c pm sm Ha Hb Hc H1 Ra Rb Rc).
  f_equal. f_equal.
  - unfold spec_satmap. f_equal. apply map_ext_in. intros id Hid. apply Lp.
    apply sat_ids_range in Hid. lia.
  - unfold spec_cellmap. f_equal. apply map_ext_in. intros [s g] Hin. apply cells_In in Hin. destruct Hin as [Hs Hg].
    apply sat_ids_range in Hs. apply sig_ids_range in Hg. rewrite Lp, Ls by lia. reflexivity.
Qed.
End EndToEnd.

(* ====================== the specification on concrete masks (sanity of Spec/MsmMasks.v) ====================== *)
Example spec_sat_ids : sat_ids (2^63 + 2^58 + 1) = [1; 6; 64] /\ sat_ids 0 = [] /\ List.length (sat_ids (2^64 - 1)) = 64%nat.
Proof. vm_compute. auto. Qed.
Example spec_sig_ids : sig_ids (2^30 + 2^16 + 1) = [2; 16; 32].
Proof. vm_compute. reflexivity. Qed.
(* 2 satellites x 3 signals, cell mask 101 001: first satellite has signals 1 and 3, second only signal 3 *)
Example spec_cells : cells [5; 9] [2; 16; 32] 41 = [(5, 2); (5, 32); (9, 32)].
Proof. vm_compute. reflexivity. Qed.
Example spec_cells_excess : cells [5; 9] [2; 16; 32] (41 + 64 * 7) = [(5, 2); (5, 32); (9, 32)].
Proof. vm_compute. reflexivity. Qed.
Example spec_labels :
  spec_cellmap [(5, "005"%string)] [(2, ("L1", "1C")%string)] "N/A" true (2^59 + 2^55) (2^30 + 2^16) 9
  = [(1, ("005", "1C")); (2, ("N/A", "N/A"))]%string.
Proof. vm_compute. reflexivity. Qed.

(* ====================== closed under the global context ====================== *)
Print Assumptions scan_positions.
Print Assumptions scan_positions_low.
Print Assumptions positions_spec.
Print Assumptions positions_sorted.
Print Assumptions popcount_positions.
Print Assumptions getsatcellmaps_spec.
Print Assumptions getsatcellmaps_components.
Print Assumptions nsat_popcount.
Print Assumptions nsig_popcount.
Print Assumptions ncell_popcount.
Print Assumptions ncell_popcount_low.
Print Assumptions cellmap_low_bits.
Print Assumptions satmap_length.
Print Assumptions cellmap_length.
Print Assumptions satmap_nth.
Print Assumptions satmap_outside.
Print Assumptions cellmap_nth.
Print Assumptions cellmap_outside.
Print Assumptions label_default.
Print Assumptions label_default_zassoc.
Print Assumptions label_defined.
Print Assumptions set_single_prn.
Print Assumptions set_single_prn_fail.
Print Assumptions set_single_prn_inv.
Print Assumptions set_single_cpr.
Print Assumptions set_single_cpr_fail.
Print Assumptions set_single_cpr_inv.
Print Assumptions set_single_csg.
Print Assumptions set_single_csg_fail.
Print Assumptions set_single_csg_inv.
Print Assumptions set_single_df394.
Print Assumptions set_single_df395.
Print Assumptions set_single_df396.
Print Assumptions get_bits_lt.
Print Assumptions set_single_prn_msm.
Print Assumptions set_single_prn_msm_outside.
Print Assumptions set_single_cpr_msm.
Print Assumptions set_single_csg_msm.
Print Assumptions set_single_cell_msm_outside.
Print Assumptions pinned_labels.
Print Assumptions getsatcellmaps_pinned.
Print Assumptions prnsig_matches_sound.
Print Assumptions label_fields_zero_width_sound.
