(* C09: the MSM satellite / signal / cell maps built by the mirrored _getsatcellmaps and used by the
   PRN / CELLPRN / CELLSIG pseudo-fields are the ones Spec/MsmMasks.v prescribes, for every mask value
   and every table; counts are popcounts; labels default to exactly t_na. *)
From Coq Require Import NArith ZArith List String Bool Lia Sorted.
From PyRtcm Require Import Base.Bytes Base.Dec Model.Types Model.Message Spec.MsmMasks Spec.Pinned.
Import ListNotations.
Open Scope Z_scope.

(* ====================== generic list facts ====================== *)
Lemma select_map {A B} (f:A -> B) bs l : select bs (map f l) = map f (select bs l).
Proof.
  revert l. induction bs as [|b bs IH]; intros [|x l]; simpl; auto.
  destruct b; simpl; now rewrite IH.
Qed.

Lemma filter_select {A} (f:A -> bool) l : filter f l = select (map f l) l.
Proof. induction l as [|x l IH]; simpl; auto. destruct (f x); now rewrite IH. Qed.

(* filtering a numbered list on the number, then dropping the numbers *)
Lemma filter_combine_select {A} (f:Z -> bool) ids (l:list A) :
  map snd (filter (fun p => f (fst p)) (combine ids l)) = select (map f ids) l.
Proof.
  revert l. induction ids as [|i ids IH]; intros [|x l]; simpl; auto.
  destruct (f i); simpl; now rewrite IH.
Qed.

Lemma positions_from_select k l :
  positions_from (Z.of_nat k) l = select l (map Z.of_nat (seq k (List.length l))).
Proof.
  revert k. induction l as [|b l IH]; intro k; simpl; auto.
  replace (Z.of_nat k + 1) with (Z.of_nat (S k)) by lia. rewrite IH. reflexivity.
Qed.

Lemma positions_select l : positions l = select l (map Z.of_nat (seq 1 (List.length l))).
Proof. unfold positions. apply (positions_from_select 1). Qed.

Lemma positions_from_range i l p : In p (positions_from i l) -> i <= p < i + Z.of_nat (List.length l).
Proof.
  revert i. induction l as [|b l IH]; intros i H; simpl in H; [contradiction|].
  assert (R: In p (positions_from (i+1) l) -> i <= p < i + Z.of_nat (List.length (b::l))).
  { intro H'. apply IH in H'. simpl List.length. lia. }
  destruct b; [destruct H as [H|H]|]; auto. subst. simpl List.length. lia.
Qed.

Lemma positions_range l p : In p (positions l) -> 1 <= p <= Z.of_nat (List.length l).
Proof. intro H. apply positions_from_range in H. lia. Qed.

Lemma positions_from_length i l : List.length (positions_from i l) = List.length (filter (fun b:bool => b) l).
Proof. revert i. induction l as [|b l IH]; intro i; simpl; auto. destruct b; simpl; now rewrite IH. Qed.

(* declarative reading of [positions]: exactly the 1-based places holding true, strictly increasing *)
Lemma positions_from_spec i l p :
  In p (positions_from i l) <-> (i <= p /\ nth_error l (Z.to_nat (p - i)) = Some true).
Proof.
  revert i. induction l as [|b l IH]; intro i.
  - simpl. split; [contradiction|]. intros [_ H]. destruct (Z.to_nat (p - i)); discriminate.
  - assert (R: In p (positions_from (i+1) l) <-> (i + 1 <= p /\ nth_error (b::l) (Z.to_nat (p - i)) = Some true)).
    { rewrite IH. split; intros [H1 H2]; split; auto.
      - replace (Z.to_nat (p - i)) with (S (Z.to_nat (p - (i+1)))) by lia. exact H2.
      - replace (Z.to_nat (p - i)) with (S (Z.to_nat (p - (i+1)))) in H2 by lia. exact H2. }
    simpl positions_from. destruct b.
    + simpl In. rewrite R. split.
      * intros [H|[H1 H2]]; [subst; split; [lia|]; now rewrite Z.sub_diag | split; [lia|auto]].
      * intros [H1 H2]. destruct (Z.eq_dec i p) as [E|E]; [now left|right; split; [lia|auto]].
    + rewrite R. split; intros [H1 H2]; split; auto; try lia.
      destruct (Z.eq_dec i p) as [E|E]; [|lia]. subst. rewrite Z.sub_diag in H2. discriminate.
Qed.

Theorem positions_spec l p :
  In p (positions l) <-> (1 <= p /\ nth_error l (Z.to_nat (p - 1)) = Some true).
Proof. apply positions_from_spec. Qed.

Lemma positions_from_sorted i l : StronglySorted Z.lt (positions_from i l).
Proof.
  revert i. induction l as [|b l IH]; intro i; simpl; [constructor|].
  destruct b; auto. constructor; auto.
  apply Forall_forall. intros p Hp. apply positions_from_range in Hp. lia.
Qed.

Theorem positions_sorted l : StronglySorted Z.lt (positions l).
Proof. apply positions_from_sorted. Qed.

(* ====================== bits_of as bit tests ====================== *)
Lemma bits_of_testbit w n :
  bits_of w n = map (fun idx => Z.testbit (Z.of_N n) (Z.of_nat w - idx)) (map Z.of_nat (seq 1 w)).
Proof.
  revert n. induction w as [|w IH]; intro n; [reflexivity|].
  cbn [bits_of]. rewrite seq_S, !map_app. f_equal.
  - rewrite IH. rewrite !map_map. apply map_ext_in. intros k Hk. apply in_seq in Hk.
    rewrite N2Z.inj_div. change (Z.of_N 2) with 2. rewrite Z.div2_bits by lia.
    f_equal. lia.
  - cbn [map]. f_equal. replace (Z.of_nat (S w) - Z.of_nat (1 + w)) with (Z.of_N 0) by lia.
    rewrite Z.testbit_of_N. symmetry. apply N.bit0_odd.
Qed.

Lemma mask_bits_testbit w m : 0 <= m ->
  mask_bits w m = map (fun idx => Z.testbit m (Z.of_nat w - idx)) (map Z.of_nat (seq 1 w)).
Proof. intro H. unfold mask_bits. rewrite bits_of_testbit, Z2N.id by exact H. reflexivity. Qed.

(* only the w low bits of the mask value matter *)
Lemma mask_bits_mod w m : 0 <= m -> mask_bits w (m mod 2^Z.of_nat w) = mask_bits w m.
Proof.
  intro H. assert (P: 0 < 2^Z.of_nat w) by (apply Z.pow_pos_nonneg; lia).
  rewrite !mask_bits_testbit by (auto; apply Z.mod_pos_bound; exact P).
  rewrite !map_map. apply map_ext_in. intros k Hk. apply in_seq in Hk.
  apply Z.mod_pow2_bits_low. lia.
Qed.

Lemma testbit_above m w : 0 <= w -> 0 <= m < 2^w -> Z.testbit m w = false.
Proof.
  intros Hw [H0 H1]. destruct (Z.eq_dec m 0) as [E|E]; [subst; apply Z.testbit_0_l|].
  apply Z.bits_above_log2; [exact H0|]. apply Z.log2_lt_pow2; lia.
Qed.

(* the loop `for idx in range(w+1): if mask >> (w - idx) & 1` is the MSB-first scan; index 0 never fires *)
Theorem scan_positions (wn:nat) (w m:Z) : w = Z.of_nat wn -> 0 <= m < 2^w ->
  filter (fun idx => Z.testbit m (w - idx)) (zrange (S wn)) = positions (bits_of wn (Z.to_N m)).
Proof.
  intros -> Hm. unfold zrange. cbn [seq map filter].
  change (Z.of_nat 0) with 0. rewrite Z.sub_0_r, testbit_above by (auto; lia).
  rewrite filter_select. fold (mask_bits wn m). rewrite <- mask_bits_testbit by lia.
  rewrite positions_select. unfold mask_bits. rewrite bits_of_length. reflexivity.
Qed.

(* without the range hypothesis the scan over 1..w is still the MSB-first scan of the w low bits *)
Theorem scan_positions_low (wn:nat) (w m:Z) : w = Z.of_nat wn -> 0 <= m ->
  filter (fun idx => Z.testbit m (w - idx)) (map Z.of_nat (seq 1 wn)) = positions (bits_of wn (Z.to_N m)).
Proof.
  intros -> Hm. rewrite filter_select. fold (mask_bits wn m). rewrite <- mask_bits_testbit by lia.
  rewrite positions_select. unfold mask_bits. rewrite bits_of_length. reflexivity.
Qed.

(* ====================== counts ====================== *)
Lemma popcount_step n : popcount n = popcount (n / 2) + (if N.odd n then 1 else 0).
Proof.
  rewrite <- N.div2_div. destruct n as [|p]; [reflexivity|]. destruct p as [q|q|]; cbn -[Z.add]; lia.
Qed.

Lemma positions_app_length a b :
  List.length (positions (a ++ b)) = (List.length (positions a) + List.length (positions b))%nat.
Proof. unfold positions. rewrite !positions_from_length, filter_app, app_length. reflexivity. Qed.

Theorem popcount_positions (w:nat) (n:N) : (n < 2^N.of_nat w)%N ->
  popcount n = Z.of_nat (List.length (positions (bits_of w n))).
Proof.
  revert n. induction w as [|w IH]; intros n H.
  - simpl in H. assert (n = 0%N) by lia. subst. reflexivity.
  - cbn [bits_of]. rewrite positions_app_length, popcount_step, IH.
    + destruct (N.odd n); cbn; lia.
    + rewrite Nat2N.inj_succ, N.pow_succ_r' in H. apply N.div_lt_upper_bound; lia.
Qed.

Lemma to_N_lt_pow2 m w : 0 <= m < 2^Z.of_nat w -> (Z.to_N m < 2^N.of_nat w)%N.
Proof.
  intros [H0 H1]. apply N2Z.inj_lt. rewrite Z2N.id by exact H0.
  rewrite N2Z.inj_pow. change (Z.of_N 2) with 2. now rewrite nat_N_Z.
Qed.

(* ====================== lookups, numbering, the cell grid ====================== *)
Lemma zassoc_zlookup {A} id (tab:list (Z*A)) : zassoc id tab = zlookup id tab.
Proof.
  unfold zlookup. induction tab as [|[k v] tab IH]; [reflexivity|].
  cbn [zassoc find fst]. destruct (k =? id); [reflexivity|exact IH].
Qed.

Lemma prn_label_zassoc prnmap na id :
  match zassoc id prnmap with Some s => s | None => na end = prn_label prnmap na id.
Proof. unfold prn_label. now rewrite zassoc_zlookup. Qed.

Lemma sig_label_zassoc sigmap na (rinex:bool) id :
  (if rinex then snd match zassoc id sigmap with Some p => p | None => (na, na) end
            else fst match zassoc id sigmap with Some p => p | None => (na, na) end)
  = sig_label sigmap na rinex id.
Proof.
  unfold sig_label. rewrite zassoc_zlookup. destruct (zlookup id sigmap) as [[band code]|]; cbn; [reflexivity|].
  now destruct rinex.
Qed.

Lemma number_eq {A} (l:list A) :
  combine (map (fun k => Z.of_nat k + 1) (seq 0 (List.length l))) l = number l.
Proof.
  unfold number. f_equal. rewrite <- seq_shift, map_map. apply map_ext. intro k. lia.
Qed.

Lemma number_length {A} (l:list A) : List.length (number l) = List.length l.
Proof. unfold number. rewrite combine_length, map_length, seq_length. lia. Qed.

Lemma zassoc_numbered {A} (l:list A) s i :
  zassoc i (combine (map Z.of_nat (seq s (List.length l))) l) =
  if Z.of_nat s <=? i then nth_error l (Z.to_nat (i - Z.of_nat s)) else None.
Proof.
  revert s. induction l as [|x l IH]; intro s.
  - simpl. destruct (Z.of_nat s <=? i); [|reflexivity]. now destruct (Z.to_nat (i - Z.of_nat s)).
  - cbn [List.length seq map combine zassoc]. rewrite IH.
    destruct (Z.eqb_spec (Z.of_nat s) i) as [E|E].
    + subst. rewrite Z.leb_refl, Z.sub_diag. reflexivity.
    + destruct (Z.leb_spec (Z.of_nat s) i) as [L|L].
      * destruct (Z.leb_spec (Z.of_nat (S s)) i) as [L'|L']; [|lia].
        replace (Z.to_nat (i - Z.of_nat s)) with (S (Z.to_nat (i - Z.of_nat (S s)))) by lia. reflexivity.
      * destruct (Z.leb_spec (Z.of_nat (S s)) i) as [L'|L']; [lia|reflexivity].
Qed.

(* dict lookup in {1: l[0], 2: l[1], ...} *)
Theorem zassoc_number {A} (l:list A) i :
  zassoc i (number l) = if 1 <=? i then nth_error l (Z.to_nat (i - 1)) else None.
Proof. unfold number. apply (zassoc_numbered l 1 i). Qed.

Lemma zassoc_number_nth {A} (l:list A) (k:nat) d : (k < List.length l)%nat ->
  zassoc (Z.of_nat k + 1) (number l) = Some (nth k l d).
Proof.
  intro H. rewrite zassoc_number. destruct (Z.leb_spec 1 (Z.of_nat k + 1)) as [L|L]; [|lia].
  replace (Z.to_nat (Z.of_nat k + 1 - 1)) with k by lia. now apply nth_error_nth'.
Qed.

Lemma zassoc_number_none {A} (l:list A) i : i < 1 \/ Z.of_nat (List.length l) < i -> zassoc i (number l) = None.
Proof.
  intro H. rewrite zassoc_number. destruct (Z.leb_spec 1 i) as [L|L]; [|reflexivity].
  apply nth_error_None. lia.
Qed.

Lemma cell_pairs_length {A B} (sats:list A) (sigs:list B) :
  List.length (cell_pairs sats sigs) = (List.length sats * List.length sigs)%nat.
Proof.
  unfold cell_pairs. induction sats as [|s sats IH]; [reflexivity|].
  cbn [flat_map List.length]. rewrite app_length, map_length, IH. lia.
Qed.

Lemma cell_pairs_map {A B C D} (f:A -> C) (g:B -> D) sats sigs :
  cell_pairs (map f sats) (map g sigs) = map (fun p => (f (fst p), g (snd p))) (cell_pairs sats sigs).
Proof.
  unfold cell_pairs. induction sats as [|s sats IH]; [reflexivity|].
  cbn [map flat_map]. rewrite map_app, IH, !map_map. reflexivity.
Qed.

(* satellite-major: entry j (0-based) of the grid is (satellite j / nsig, signal j mod nsig) *)
Lemma cell_pairs_nth {A B} (sats:list A) (sigs:list B) j ds dg :
  (j < List.length sats * List.length sigs)%nat ->
  nth j (cell_pairs sats sigs) (ds, dg) =
  (nth (j / List.length sigs) sats ds, nth (j mod List.length sigs) sigs dg).
Proof.
  unfold cell_pairs. revert j. induction sats as [|s sats IH]; intros j H; [simpl in H; lia|].
  assert (N0: List.length sigs <> O) by (intro E; rewrite E in H; lia).
  cbn [flat_map]. destruct (Nat.lt_ge_cases j (List.length sigs)) as [L|L].
  - rewrite app_nth1 by (now rewrite map_length).
    rewrite Nat.div_small, Nat.mod_small by exact L.
    change (ds, dg) with ((fun g => (ds, g)) dg). cbn [nth].
    rewrite (nth_indep _ _ (s, dg)) by (now rewrite map_length).
    change (s, dg) with ((fun g => (s, g)) dg). now rewrite map_nth.
  - rewrite app_nth2 by (rewrite map_length; exact L). rewrite map_length.
    rewrite IH by (cbn [List.length] in H; lia).
    replace j with ((j - List.length sigs) + 1 * List.length sigs)%nat at 3 4 by lia.
    rewrite Nat.div_add, Nat.mod_add by exact N0.
    replace (((j - List.length sigs) / List.length sigs + 1))%nat with (S ((j - List.length sigs) / List.length sigs)) by lia.
    reflexivity.
Qed.

(* the selected entries are those standing at the positions of the true bits *)
Lemma select_positions_from {A} bs (l:list A) i d : (List.length bs <= List.length l)%nat ->
  select bs l = map (fun p => nth (Z.to_nat (p - i)) l d) (positions_from i bs).
Proof.
  revert l i. induction bs as [|b bs IH]; intros l i H; [reflexivity|].
  destruct l as [|x l]; [simpl in H; lia|]. cbn [select positions_from].
  assert (R: select bs l = map (fun p => nth (Z.to_nat (p - i)) (x :: l) d) (positions_from (i + 1) bs)).
  { rewrite (IH l (i+1)) by (simpl in H; lia). apply map_ext_in. intros p Hp.
    apply positions_from_range in Hp.
    replace (Z.to_nat (p - i)) with (S (Z.to_nat (p - (i+1)))) by lia. reflexivity. }
  destruct b; cbn [map]; rewrite R; [|reflexivity].
  rewrite Z.sub_diag. reflexivity.
Qed.

Lemma select_positions {A} bs (l:list A) d : (List.length bs <= List.length l)%nat ->
  select bs l = map (fun p => nth (Z.to_nat (p - 1)) l d) (positions bs).
Proof. apply select_positions_from. Qed.

Lemma select_length {A} bs (l:list A) : List.length bs = List.length l ->
  List.length (select bs l) = List.length (positions bs).
Proof.
  intro H. destruct l as [|d l].
  - destruct bs; [reflexivity|discriminate].
  - rewrite (select_positions bs (d::l) d) by lia. apply map_length.
Qed.

(* ====================== _getsatcellmaps ====================== *)
Lemma number_eq_map {A B} (f:A -> B) (h:list A) :
  combine (map (fun k => Z.of_nat k + 1) (seq 0 (List.length h))) (map f h) = number (map f h).
Proof. rewrite <- number_eq, map_length. reflexivity. Qed.

(* the cell loop, for arbitrary satellite / signal label lists *)
Lemma cellmap_build {A B} (L:list A) (S:list B) c : 0 <= c ->
  combine (map (fun k => Z.of_nat k + 1)
            (seq 0 (List.length
               (filter (fun '(idx, _) => Z.testbit c (Z.of_nat (List.length L) * Z.of_nat (List.length S) - idx))
                  (combine (map (fun k => Z.of_nat k + 1)
                              (seq 0 (List.length (flat_map (fun s => map (fun g => (s, g)) S) L))))
                           (flat_map (fun s => map (fun g => (s, g)) S) L))))))
          (map snd
             (filter (fun '(idx, _) => Z.testbit c (Z.of_nat (List.length L) * Z.of_nat (List.length S) - idx))
                (combine (map (fun k => Z.of_nat k + 1)
                            (seq 0 (List.length (flat_map (fun s => map (fun g => (s, g)) S) L))))
                         (flat_map (fun s => map (fun g => (s, g)) S) L))))
  = number (cells L S c).
Proof.
  intro Rc. fold (cell_pairs L S). rewrite number_eq_map, (number_eq (cell_pairs L S)). f_equal.
  pose (F := fun idx => Z.testbit c (Z.of_nat (List.length L) * Z.of_nat (List.length S) - idx)).
  rewrite (filter_ext _ (fun p => F (fst p))) by (intros [i x]; reflexivity).
  unfold number. rewrite (filter_combine_select F). unfold F.
  rewrite <- Nat2Z.inj_mul, cell_pairs_length, <- mask_bits_testbit by exact Rc.
  reflexivity.
Qed.

Lemma cells_map {A B C D} (f:A -> C) (g:B -> D) sats sigs c :
  cells (map f sats) (map g sigs) c = map (fun '(s, x) => (f s, g x)) (cells sats sigs c).
Proof.
  unfold cells. rewrite cell_pairs_map, select_map, !map_length.
  apply map_ext. intros [s x]. reflexivity.
Qed.

(* the two scan loops of _getsatcellmaps *)
Lemma scan_sat a : 0 <= a < 2^64 -> filter (fun idx => Z.testbit a (64 - idx)) (zrange 65) = sat_ids a.
Proof. exact (scan_positions 64 64 a eq_refl). Qed.
Lemma scan_sig b : 0 <= b < 2^32 -> filter (fun idx => Z.testbit b (32 - idx)) (zrange 33) = sig_ids b.
Proof. exact (scan_positions 32 32 b eq_refl). Qed.

Section Maps.
Variable T : tables.

Theorem getsatcellmaps_spec ident o a b c prnmap sigmap :
  getint o "DF394" = Ok a -> getint o "DF395" = Ok b -> getint o "DF396" = Ok c ->
  assoc (substring 0 3 ident) (t_prnsig T) = Some (prnmap, sigmap) ->
  0 <= a < 2^64 -> 0 <= b < 2^32 -> 0 <= c ->
  getsatcellmaps T ident o =
  Ok (with_maps o (spec_satmap prnmap (t_na T) a)
                  (spec_cellmap prnmap sigmap (t_na T) (negb (o_labelmsm o =? 2)) a b c)).
Proof.
  intros Ha Hb Hc Hk Ra Rb Rc. unfold getsatcellmaps. rewrite Hk, Ha, Hb, Hc. cbn [obind].
  rewrite (scan_sat a Ra), (scan_sig b Rb).
  rewrite (map_ext _ (prn_label prnmap (t_na T)) (prn_label_zassoc prnmap (t_na T))).
  rewrite (map_ext _ (sig_label sigmap (t_na T) (negb (o_labelmsm o =? 2)))
                     (sig_label_zassoc sigmap (t_na T) (negb (o_labelmsm o =? 2)))).
  rewrite cellmap_build by exact Rc.
  rewrite number_eq, cells_map. unfold spec_satmap, spec_cellmap. reflexivity.
Qed.
End Maps.

(* ====================== consequences: counts ====================== *)
Theorem satmap_length prnmap na a : List.length (spec_satmap prnmap na a) = List.length (sat_ids a).
Proof. unfold spec_satmap. now rewrite number_length, map_length. Qed.

Lemma cells_length {A B} (sats:list A) (sigs:list B) c :
  List.length (cells sats sigs c) = List.length (positions (mask_bits (List.length sats * List.length sigs) c)).
Proof.
  unfold cells. apply select_length. unfold mask_bits. now rewrite bits_of_length, cell_pairs_length.
Qed.

Theorem cellmap_length prnmap sigmap na rinex a b c :
  List.length (spec_cellmap prnmap sigmap na rinex a b c) =
  List.length (positions (mask_bits (List.length (sat_ids a) * List.length (sig_ids b)) c)).
Proof. unfold spec_cellmap. now rewrite number_length, map_length, cells_length. Qed.

(* NSat, NSig: set_single stores popcount of the decoded mask bits *)
Theorem nsat_popcount prnmap na a : 0 <= a < 2^64 ->
  popcount (Z.to_N a) = Z.of_nat (List.length (spec_satmap prnmap na a)).
Proof.
  intro Ra. rewrite satmap_length. unfold sat_ids, mask_bits.
  apply popcount_positions. apply (to_N_lt_pow2 a 64). exact Ra.
Qed.

Theorem nsig_popcount b : 0 <= b < 2^32 -> popcount (Z.to_N b) = Z.of_nat (List.length (sig_ids b)).
Proof.
  intro Rb. unfold sig_ids, mask_bits. apply popcount_positions. apply (to_N_lt_pow2 b 32). exact Rb.
Qed.

(* NCell: the decoded DF396 has exactly NSat*NSig bits *)
Theorem ncell_popcount prnmap sigmap na rinex a b c :
  0 <= c < 2^Z.of_nat (List.length (sat_ids a) * List.length (sig_ids b)) ->
  popcount (Z.to_N c) = Z.of_nat (List.length (spec_cellmap prnmap sigmap na rinex a b c)).
Proof.
  intro Rc. rewrite cellmap_length. unfold mask_bits. apply popcount_positions. now apply to_N_lt_pow2.
Qed.

(* a DF396 value wider than NSat*NSig bits (cannot be decoded, but harmless): the excess high bits are ignored *)
Theorem cellmap_low_bits prnmap sigmap na rinex a b c : 0 <= c ->
  spec_cellmap prnmap sigmap na rinex a b (c mod 2^Z.of_nat (List.length (sat_ids a) * List.length (sig_ids b)))
  = spec_cellmap prnmap sigmap na rinex a b c.
Proof. intro Rc. unfold spec_cellmap, cells. now rewrite mask_bits_mod. Qed.

Theorem ncell_popcount_low prnmap sigmap na rinex a b c : 0 <= c ->
  popcount (Z.to_N (c mod 2^Z.of_nat (List.length (sat_ids a) * List.length (sig_ids b))))
  = Z.of_nat (List.length (spec_cellmap prnmap sigmap na rinex a b c)).
Proof.
  intro Rc. rewrite <- (cellmap_low_bits prnmap sigmap na rinex a b c Rc).
  apply ncell_popcount. apply Z.mod_pos_bound. apply Z.pow_pos_nonneg; lia.
Qed.

(* ids found by the scans are in range *)
Theorem sat_ids_range a id : In id (sat_ids a) -> 1 <= id <= 64.
Proof. intro H. apply positions_range in H. unfold mask_bits in H. rewrite bits_of_length in H. lia. Qed.
Theorem sig_ids_range b id : In id (sig_ids b) -> 1 <= id <= 32.
Proof. intro H. apply positions_range in H. unfold mask_bits in H. rewrite bits_of_length in H. lia. Qed.

(* ====================== consequences: the i-th entry ====================== *)
(* satellite entry k+1 is labelled with the PRN of the (k+1)-th set bit of DF394, counted from the MSB *)
Theorem satmap_nth prnmap na a (k:nat) : (k < List.length (sat_ids a))%nat ->
  zassoc (Z.of_nat k + 1) (spec_satmap prnmap na a) = Some (prn_label prnmap na (nth k (sat_ids a) 0)).
Proof.
  intro H. unfold spec_satmap. rewrite (zassoc_number_nth _ k (prn_label prnmap na 0)) by (now rewrite map_length).
  now rewrite map_nth.
Qed.

Theorem satmap_outside prnmap na a i : i < 1 \/ Z.of_nat (List.length (sat_ids a)) < i ->
  zassoc i (spec_satmap prnmap na a) = None.
Proof. intro H. unfold spec_satmap. apply zassoc_number_none. now rewrite map_length. Qed.

(* the k-th selected cell (0-based k) is the grid entry under the k-th set bit; in the satellite-major grid
   that entry is (satellite q / nsig, signal q mod nsig) for the 0-based bit index q *)
Lemma cells_nth {A B} (sats:list A) (sigs:list B) c (k:nat) ds dg :
  (k < List.length (positions (mask_bits (List.length sats * List.length sigs) c)))%nat ->
  let q := Z.to_nat (nth k (positions (mask_bits (List.length sats * List.length sigs) c)) 0 - 1) in
  (q < List.length sats * List.length sigs)%nat /\
  nth k (cells sats sigs c) (ds, dg) = (nth (q / List.length sigs) sats ds, nth (q mod List.length sigs) sigs dg).
Proof.
  intros Hk q.
  set (bs := mask_bits (List.length sats * List.length sigs) c) in *.
  assert (Lb: List.length bs = (List.length sats * List.length sigs)%nat) by (unfold bs, mask_bits; apply bits_of_length).
  assert (Hq: (q < List.length sats * List.length sigs)%nat).
  { pose proof (positions_range bs _ (nth_In _ 0 Hk)) as R. unfold q. lia. }
  split; [exact Hq|].
  unfold cells. fold bs. rewrite (select_positions bs _ (ds, dg)) by (rewrite cell_pairs_length; lia).
  set (f := fun p => nth (Z.to_nat (p - 1)) (cell_pairs sats sigs) (ds, dg)).
  rewrite (nth_indep _ _ (f 0)) by (now rewrite map_length). rewrite map_nth. unfold f. fold q.
  now apply cell_pairs_nth.
Qed.

Theorem cellmap_nth prnmap sigmap na rinex a b c (k:nat) :
  let nsat := List.length (sat_ids a) in
  let nsig := List.length (sig_ids b) in
  let setbits := positions (mask_bits (nsat * nsig) c) in
  (k < List.length setbits)%nat ->
  let q := Z.to_nat (nth k setbits 0 - 1) in            (* 0-based index of the (k+1)-th set bit of DF396 *)
  (q / nsig < nsat)%nat /\ (q mod nsig < nsig)%nat /\
  zassoc (Z.of_nat k + 1) (spec_cellmap prnmap sigmap na rinex a b c) =
    Some (prn_label prnmap na (nth (q / nsig) (sat_ids a) 0),
          sig_label sigmap na rinex (nth (q mod nsig) (sig_ids b) 0)).
Proof.
  intros nsat nsig setbits Hk q.
  destruct (cells_nth (sat_ids a) (sig_ids b) c k 0 0 Hk) as [Hq Hn]. fold nsat nsig setbits q in Hq, Hn.
  assert (N0: nsig <> O) by (intro E; rewrite E in Hq; lia).
  split; [apply Nat.div_lt_upper_bound; [exact N0|lia]|].
  split; [now apply Nat.mod_upper_bound|].
  unfold spec_cellmap.
  set (F := fun '(s, g) => (prn_label prnmap na s, sig_label sigmap na rinex g)).
  rewrite (zassoc_number_nth _ k (F (0, 0))) by (rewrite map_length, cells_length; exact Hk).
  rewrite map_nth, Hn. reflexivity.
Qed.

Theorem cellmap_outside prnmap sigmap na rinex a b c i :
  i < 1 \/ Z.of_nat (List.length (positions (mask_bits (List.length (sat_ids a) * List.length (sig_ids b)) c))) < i ->
  zassoc i (spec_cellmap prnmap sigmap na rinex a b c) = None.
Proof. intro H. unfold spec_cellmap. apply zassoc_number_none. now rewrite map_length, cells_length. Qed.

(* ====================== labels ====================== *)
Lemma zlookup_absent {A} id (tab:list (Z*A)) : ~ In id (map fst tab) -> zlookup id tab = None.
Proof.
  unfold zlookup. induction tab as [|[k v] tab IH]; intro H; [reflexivity|].
  cbn [find fst]. destruct (Z.eqb_spec k id) as [E|E].
  - exfalso. apply H. left. exact E.
  - apply IH. intro H'. apply H. right. exact H'.
Qed.

(* an id the constellation's table does not define is labelled exactly NA, under both label options *)
Theorem label_default prnmap sigmap na id :
  (~ In id (map fst prnmap) -> prn_label prnmap na id = na) /\
  (~ In id (map fst sigmap) -> forall rinex, sig_label sigmap na rinex id = na).
Proof.
  split.
  - intro H. unfold prn_label. now rewrite zlookup_absent.
  - intros H rinex. unfold sig_label. now rewrite zlookup_absent.
Qed.

Theorem label_default_zassoc prnmap sigmap na id :
  (zassoc id prnmap = None -> prn_label prnmap na id = na) /\
  (zassoc id sigmap = None -> forall rinex, sig_label sigmap na rinex id = na).
Proof.
  split.
  - intro H. unfold prn_label. now rewrite <- zassoc_zlookup, H.
  - intros H rinex. unfold sig_label. now rewrite <- zassoc_zlookup, H.
Qed.

Theorem label_defined prnmap sigmap na id :
  (forall s, zassoc id prnmap = Some s -> prn_label prnmap na id = s) /\
  (forall band code, zassoc id sigmap = Some (band, code) ->
     sig_label sigmap na true id = code /\ sig_label sigmap na false id = band).
Proof.
  split.
  - intros s H. unfold prn_label. now rewrite <- zassoc_zlookup, H.
  - intros band code H. unfold sig_label. now rewrite <- zassoc_zlookup, H.
Qed.
