(* C03 round trip, part 1: bit-list facts (pack / bits, bits_of / uint, popcount) and the
   correspondence between the encoder's primitive steps (Spec/Encoder.v) and the model's, on the object
   whose attribute dictionary and maps are the encoder's. *)
From Coq Require Import NArith ZArith List String Bool Lia.
From PyRtcm Require Import Base.Bytes Base.Dec Model.Types Model.Message Spec.FieldGrammar Spec.MsmMasks Spec.Encoder.
From PyRtcm Require Proofs.MsmProofs.
From PyRtcm Require Import Proofs.DecodeBits Proofs.DecodeWalk Proofs.DecodeExtend Proofs.DecodeSingle.
Import ListNotations.
Open Scope list_scope.
Open Scope Z_scope.

(* ================= bit lists ================= *)
Lemma bits_of_uint : forall l, bits_of (List.length l) (uint l) = l.
Proof.
  induction l as [|b l IH] using rev_ind; [reflexivity|].
  rewrite app_length. cbn [List.length]. rewrite Nat.add_1_r. cbn [bits_of].
  rewrite uint_app. cbn [List.length uint]. change (2 ^ N.of_nat 1)%N with 2%N. change (2 ^ N.of_nat 0)%N with 1%N.
  assert (E : ((uint l * 2 + ((if b then 1 else 0) + 0)) / 2 = uint l)%N).
  { destruct b.
    - replace (uint l * 2 + (1 + 0))%N with (1 + uint l * 2)%N by lia.
      rewrite N.div_add by lia. change (1 / 2)%N with 0%N. lia.
    - replace (uint l * 2 + (0 + 0))%N with (0 + uint l * 2)%N by lia.
      rewrite N.div_add by lia. reflexivity. }
  rewrite E, IH. f_equal. f_equal.
  destruct b.
  - replace (uint l * 2 + (1 + 0))%N with (1 + 2 * uint l)%N by lia. rewrite N.odd_add_mul_2. reflexivity.
  - replace (uint l * 2 + (0 + 0))%N with (0 + 2 * uint l)%N by lia. rewrite N.odd_add_mul_2. reflexivity.
Qed.

Lemma bits_cons x r : bits (x :: r) = byte_bits x ++ bits r.
Proof. reflexivity. Qed.

Lemma byte_bits_pack8 b0 b1 b2 b3 b4 b5 b6 b7 :
  byte_bits (byte_of_N (uint [b0;b1;b2;b3;b4;b5;b6;b7])) = [b0;b1;b2;b3;b4;b5;b6;b7].
Proof.
  unfold byte_bits. rewrite bN_byte_of.
  - exact (bits_of_uint [b0;b1;b2;b3;b4;b5;b6;b7]).
  - exact (uint_lt [b0;b1;b2;b3;b4;b5;b6;b7]).
Qed.

Lemma bits_pack_n : forall n l, List.length l = (8 * n)%nat -> bits (pack l) = l.
Proof.
  induction n as [|n IH]; intros l H.
  - destruct l; [reflexivity|cbn in H; lia].
  - destruct l as [|b0 [|b1 [|b2 [|b3 [|b4 [|b5 [|b6 [|b7 r]]]]]]]]; cbn [List.length] in H; try lia.
    cbn [pack]. rewrite bits_cons, byte_bits_pack8. cbn [app]. do 8 f_equal. apply IH. lia.
Qed.

Theorem bits_pack : forall l, (List.length l mod 8 = 0)%nat -> bits (pack l) = l.
Proof.
  intros l H. apply (bits_pack_n (List.length l / 8)).
  pose proof (Nat.div_mod (List.length l) 8). lia.
Qed.

Lemma popcount_uint : forall l, popcount (uint l) = count_ones l.
Proof.
  intro l. unfold count_ones.
  rewrite (MsmProofs.popcount_positions (List.length l) (uint l) (uint_lt l)).
  rewrite bits_of_uint. unfold positions. rewrite MsmProofs.positions_from_length. reflexivity.
Qed.

Lemma bits_of_length' w v : List.length (bits_of w v) = w.
Proof. apply bits_of_length. Qed.

(* the single arithmetic step of the round trip: the w bits written after `done` are the slice at offset |done| *)
Lemma slice_written p done l tail :
  bits p = done ++ l ++ tail ->
  slice p (Z.of_nat (List.length done)) (Z.of_nat (List.length l)) = l.
Proof.
  intro E. unfold slice. rewrite E, !Nat2Z.id.
  rewrite skipn_app, Nat.sub_diag, skipn_all. cbn [skipn app].
  rewrite firstn_app, Nat.sub_diag, firstn_all. cbn [firstn]. apply app_nil_r.
Qed.

Lemma nbits_bits p : nbits p = Z.of_nat (List.length (bits p)).
Proof. unfold nbits. rewrite bits_length. lia. Qed.

(* ================= the object seen by the decoder ================= *)
Definition mkobj (p:bytes) (lbl:Z) (a:attrs) (sm:option (list (Z*string))) (cm:option (list (Z*(string*string)))) : obj :=
  {| o_immutable := false; o_payload := p; o_payloadi := be p; o_labelmsm := lbl; o_unknown := false;
     o_satmap := sm; o_cellmap := cm; o_attrs := a |}.

Definition obj_of (p:bytes) (lbl:Z) (s:est) : obj := mkobj p lbl (e_attrs s) (e_sat s) (e_cell s).
Definition off_of (s:est) : Z := Z.of_nat (List.length (e_bits s)).

Lemma pwf_mkobj p lbl a sm cm : pwf (mkobj p lbl a sm cm).
Proof. reflexivity. Qed.

Lemma setattr_mk p lbl a sm cm k v : setattr (mkobj p lbl a sm cm) k v = Ok (mkobj p lbl (upd k v a) sm cm).
Proof. reflexivity. Qed.

Lemma getint_mk p lbl a sm cm k z : attr_int a k = Some z -> getint (mkobj p lbl a sm cm) k = Ok z.
Proof.
  unfold attr_int, getint, getattr. cbn [o_attrs mkobj].
  destruct (assoc k a) as [[z'|f|s]|]; try discriminate. intro E. inversion E. reflexivity.
Qed.

Lemma obnd_some {A B} (x:option A) (f:A -> option B) b :
  obnd x f = Some b -> exists a, x = Some a /\ f a = Some b.
Proof. destruct x; cbn; [eauto|discriminate]. Qed.

(* ================= repeat counts ================= *)
Lemma suffix_indices_first : forall n idxs k nm,
  suffix_indices n idxs k = Some nm -> suffix_first n idxs k = Ok nm.
Proof.
  induction n as [|n IH]; intros idxs k nm H.
  - unfold suffix_indices in H. cbn in H. inversion H. reflexivity.
  - destruct idxs as [|i r].
    + unfold suffix_indices in H. cbn in H. discriminate.
    + unfold suffix_indices in H. cbn [List.length firstn existsb fold_left] in H.
      change (S (List.length r) <? S n)%nat with (List.length r <? n)%nat in H.
      cbn [suffix_first].
      destruct (List.length r <? n)%nat eqn:L; [discriminate|].
      destruct (i <? 0) eqn:I; [cbn [orb] in H; discriminate|]. cbn [orb] in H.
      apply IH. unfold suffix_indices. rewrite L. exact H.
Qed.

Lemma group_size_mk c idxs p lbl a sm cm n :
  count_of c idxs a = Some n -> group_size c idxs (mkobj p lbl a sm cm) = Ok n.
Proof.
  destruct c as [m|key|w]; cbn [count_of group_size]; intro H.
  - inversion H. reflexivity.
  - apply obnd_some in H. destruct H as [nm [H1 H]].
    apply obnd_some in H. destruct H as [g [H2 H]]. inversion H. subst n. clear H.
    unfold count_name in H1.
    destruct (split_plus key) as [k [nl|]].
    + destruct (contains "+" nl); [discriminate|].
      destruct (N_of_str nl) as [nn|]; [|discriminate].
      rewrite (suffix_indices_first _ _ _ _ H1). cbn [obind].
      rewrite (getint_mk p lbl a sm cm nm g H2). reflexivity.
    + inversion H1. subst nm. cbn [obind]. rewrite (getint_mk p lbl a sm cm k g H2). reflexivity.
  - discriminate.
Qed.

(* ================= stages of a bit-carrying field ================= *)
Lemma field_width_mk T key fd p lbl a sm cm w :
  enc_width T key fd a = Some w -> field_width T key fd (mkobj p lbl a sm cm) = Ok w.
Proof.
  unfold enc_width, field_width. destruct (String.eqb key "DF396").
  - intro H. apply obnd_some in H. destruct H as [x [H1 H]].
    apply obnd_some in H. destruct H as [y [H2 H]]. inversion H.
    rewrite (getint_mk p lbl a sm cm _ x H1). cbn [obind].
    rewrite (getint_mk p lbl a sm cm _ y H2). reflexivity.
  - intro H. inversion H. reflexivity.
Qed.

Lemma store_value_mk ty key idxs v p lbl a sm cm a1 :
  enc_store ty key idxs v a = Some a1 ->
  store_value ty key idxs v (mkobj p lbl a sm cm) = Ok (mkobj p lbl a1 sm cm).
Proof.
  unfold enc_store, store_value. cbn [o_attrs mkobj].
  destruct ty; try (intro H; inversion H; apply setattr_mk).
  destruct (assoc key a) as [[z|f|old]|].
  - discriminate.
  - discriminate.
  - destruct v as [z|f|new]; try discriminate. intro H. inversion H. apply setattr_mk.
  - intro H. inversion H. apply setattr_mk.
Qed.

Lemma harmonic_counts_mk T idxs p lbl a sm cm a2 :
  enc_harm T idxs a = Some a2 -> harmonic_counts T idxs (mkobj p lbl a sm cm) = Ok (mkobj p lbl a2 sm cm).
Proof.
  unfold enc_harm, harmonic_counts. destruct idxs as [|i r]; [discriminate|]. cbn [first_index obind].
  destruct (i <? 0); [discriminate|]. intro H.
  apply obnd_some in H. destruct H as [n0 [H1 H]].
  apply obnd_some in H. destruct H as [m0 [H2 H]].
  rewrite (getint_mk p lbl a sm cm _ n0 H1). cbn [obind].
  rewrite (getint_mk p lbl a sm cm _ m0 H2). cbn [obind].
  destruct ((2 ^ 24 <? Z.abs (n0 + 1)) || (2 ^ 24 <? Z.abs (m0 + 1))); [discriminate|].
  inversion H. reflexivity.
Qed.

Lemma getsatcellmaps_mk T ident lbl p a sm cm maps :
  enc_maps T ident (negb (lbl =? 2)) a = Some maps ->
  getsatcellmaps T ident (mkobj p lbl a sm cm) = Ok (mkobj p lbl a (Some (fst maps)) (Some (snd maps))).
Proof.
  unfold enc_maps.
  destruct (assoc (substring 0 3 ident) (t_prnsig T)) as [[prnmap sigmap]|] eqn:PS; [|discriminate].
  intro H.
  apply obnd_some in H. destruct H as [x [H1 H]].
  apply obnd_some in H. destruct H as [y [H2 H]].
  apply obnd_some in H. destruct H as [c [H3 H]].
  destruct ((0 <=? x) && (x <? 2 ^ 64) && (0 <=? y) && (y <? 2 ^ 32) && (0 <=? c)) eqn:B; [|discriminate].
  apply andb_true_iff in B. destruct B as [B Bc].
  apply andb_true_iff in B. destruct B as [B By2].
  apply andb_true_iff in B. destruct B as [B By1].
  apply andb_true_iff in B. destruct B as [Bx1 Bx2].
  apply Z.leb_le in Bx1, By1, Bc. apply Z.ltb_lt in Bx2, By2.
  injection H as <-. cbn [fst snd].
  rewrite (MsmProofs.getsatcellmaps_spec T ident (mkobj p lbl a sm cm) x y c prnmap sigmap
             (getint_mk p lbl a sm cm _ x H1) (getint_mk p lbl a sm cm _ y H2) (getint_mk p lbl a sm cm _ c H3)
             PS (conj Bx1 Bx2) (conj By1 By2) Bc).
  reflexivity.
Qed.
