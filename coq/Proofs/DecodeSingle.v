(* Level 2 (C03): what one field occurrence stores, in terms of the bits it occupies.
   `set_single` (the mirror of _set_attribute_single) is characterised completely, for every data type
   that carries bits, by the specification function Spec.FieldGrammar.field_step. *)
From Coq Require Import NArith ZArith List String Bool Lia.
From PyRtcm Require Import Base.Bytes Base.Dec Model.Types Model.Message Spec.FieldGrammar.
From PyRtcm Require Import Proofs.DecodeBits Proofs.DecodeWalk Proofs.DecodeExtend.
Import ListNotations.
Open Scope list_scope.
Open Scope Z_scope.

Lemma obind_ret {A} (r:outcome A) : obind r (fun a => Ok a) = r.
Proof. destruct r; reflexivity. Qed.

(* ---------- the value stage ---------- *)
Lemma bit_value_spec fd w l :
  Z.of_nat (List.length l) = w ->
  bit_value fd w (uint l) =
  if needs_sign_bit (df_ty fd) && (w <? 1) then Foreign XValue
  else do v <- field_value (df_ty fd) (df_res fd) l; Ok (v, Some (uint l)).
Proof.
  intro Hl. unfold bit_value, field_value. fold (unsigned l).
  destruct (df_ty fd); cbn [needs_sign_bit andb]; try reflexivity.
  - (* TCHA *) unfold chr_limit. destruct (1114112 <=? uint l)%N; [reflexivity|].
    destruct (res_is_unit (df_res fd)); reflexivity.
  - (* TSTR *) unfold chr_limit. destruct (uint l =? 0)%N; [reflexivity|].
    destruct (1114112 <=? uint l)%N; reflexivity.
  - (* TINT *) destruct (w <? 1) eqn:W; [reflexivity|]. apply Z.ltb_ge in W.
    cbv zeta. rewrite (twos_model l w Hl W). reflexivity.
  - (* TSNT *) destruct (w <? 1) eqn:W; [reflexivity|]. apply Z.ltb_ge in W.
    cbv zeta. rewrite (signmag_model l w Hl W). reflexivity.
Qed.

Lemma read_value_spec fd idx o off w :
  is_label_ty (df_ty fd) = false -> pwf o -> 0 <= off ->
  read_value fd idx o off w =
  if (w <? 0) || (nbits (o_payload o) <? off + w) then Foreign XValue
  else if needs_sign_bit (df_ty fd) && (w <? 1) then Foreign XValue
  else do v <- field_value (df_ty fd) (df_res fd) (slice (o_payload o) off w);
       Ok (v, Some (uint (slice (o_payload o) off w))).
Proof.
  intros L P Hoff.
  assert (E : read_value fd idx o off w =
              (do bits <- get_bits (o_payloadi o) (nbits (o_payload o)) off w; bit_value fd w bits)).
  { unfold read_value, nbits. destruct (df_ty fd); cbn in L; try discriminate; reflexivity. }
  rewrite E. clear E. rewrite P.
  destruct ((w <? 0) || (nbits (o_payload o) <? off + w)) eqn:B.
  - rewrite get_bits_not_ok; [reflexivity|].
    apply orb_true_iff in B. destruct B as [B|B]; apply Z.ltb_lt in B; lia.
  - apply orb_false_iff in B. destruct B as [B1 B2]. apply Z.ltb_ge in B1, B2.
    rewrite get_bits_is_slice by lia. cbn [obind].
    apply bit_value_spec. rewrite slice_length by lia. lia.
Qed.

(* ---------- the derived-attribute stages ---------- *)
Lemma post_extras T ident anam idx l o1 :
  (do o2 <- post_mask T ident anam (Some (uint l)) o1; post_harm T anam idx o2) = extras T ident anam idx l o1.
Proof.
  unfold post_mask, is_mask_name, post_harm, extras.
  destruct (String.eqb anam "DF394") eqn:E4.
  { apply String.eqb_eq in E4. subst anam. cbn [orb]. change (String.eqb "DF394" "IDF038") with false.
    cbv beta iota. apply obind_ret. }
  destruct (String.eqb anam "DF395") eqn:E5.
  { apply String.eqb_eq in E5. subst anam. cbn [orb]. change (String.eqb "DF395" "IDF038") with false.
    cbv beta iota. apply obind_ret. }
  destruct (String.eqb anam "DF396") eqn:E6.
  { apply String.eqb_eq in E6. subst anam. cbn [orb]. change (String.eqb "DF396" "IDF038") with false.
    cbv beta iota. apply obind_ret. }
  cbn [orb]. reflexivity.
Qed.

(* ================= the complete characterisation ================= *)
Theorem set_single_spec : forall T ident anam idx fd o off,
  find_field T anam = Some fd ->
  is_label_ty (df_ty fd) = false ->        (* not PRN / CPR / CSG *)
  pwf o -> 0 <= off ->
  set_single T ident anam idx (o, off) = field_step T ident anam idx fd (o, off).
Proof.
  intros T ident anam idx fd o off F L P Hoff.
  rewrite set_single_stages, F. unfold field_stages, field_step.
  destruct (field_width T anam fd o) as [w| | |]; try reflexivity. cbn [obind].
  rewrite (read_value_spec fd idx o off w L P Hoff).
  destruct ((w <? 0) || (nbits (o_payload o) <? off + w)); [reflexivity|].
  destruct (needs_sign_bit (df_ty fd) && (w <? 1)); [reflexivity|].
  destruct (field_value (df_ty fd) (df_res fd) (slice (o_payload o) off w)) as [v| | |]; try reflexivity.
  cbn [obind fst snd].
  destruct (store_value (df_ty fd) anam idx v o) as [o1| | |]; try reflexivity. cbn [obind].
  rewrite <- post_extras.
  destruct (post_mask T ident anam (Some (uint (slice (o_payload o) off w))) o1) as [o2| | |]; reflexivity.
Qed.

(* label-typed fields: the value comes from the maps, no payload bits are consulted *)
Theorem set_single_label : forall T ident anam idx fd o off,
  find_field T anam = Some fd ->
  is_label_ty (df_ty fd) = true ->
  set_single T ident anam idx (o, off) =
  (do w <- field_width T anam fd o;
   do vb <- match df_ty fd with
            | TPRN => label_lookup idx (o_satmap o) (fun x => x)
            | TCPR => label_lookup idx (o_cellmap o) fst
            | _ => label_lookup idx (o_cellmap o) snd
            end;
   do o1 <- setattr o (render_name anam idx) (fst vb);
   do o2 <- (if is_mask_name anam then Foreign XOther else Ok o1);
   do o3 <- post_harm T anam idx o2;
   Ok (o3, off + w)).
Proof.
  intros T ident anam idx fd o off F L.
  rewrite set_single_stages, F. unfold field_stages.
  destruct (field_width T anam fd o) as [w| | |]; try reflexivity. cbn [obind].
  unfold read_value, store_value, post_mask.
  destruct (df_ty fd); cbn in L; try discriminate;
  match goal with |- obind ?r _ = _ => destruct r as [[v ob]| | |] eqn:E end; try reflexivity;
  cbn [obind fst snd];
  (assert (ob = None) as -> by
     (unfold label_lookup in E; apply obind_ok_inv in E; destruct E as [i [_ E]];
      match type of E with match ?m with _ => _ end = _ => destruct m as [m'|]; [|discriminate] end;
      destruct (zassoc i m'); [|discriminate]; apply ok_inj in E; congruence));
  reflexivity.
Qed.

(* ================= plain fields (no derived attributes) ================= *)
Definition plain_name (anam:string) : bool :=
  negb (String.eqb anam "DF394" || String.eqb anam "DF395" || String.eqb anam "DF396" || String.eqb anam "IDF038").

Lemma extras_plain T ident anam idx l o : plain_name anam = true -> extras T ident anam idx l o = Ok o.
Proof.
  unfold plain_name, extras. intro H. apply negb_true_iff in H.
  apply orb_false_iff in H. destruct H as [H H8].
  apply orb_false_iff in H. destruct H as [H H6].
  apply orb_false_iff in H. destruct H as [H4 H5].
  rewrite H4, H5, H6, H8. reflexivity.
Qed.

Lemma field_width_plain T anam fd o : plain_name anam = true -> field_width T anam fd o = Ok (df_bits fd).
Proof.
  unfold plain_name, field_width. intro H. apply negb_true_iff in H.
  apply orb_false_iff in H. destruct H as [H H8].
  apply orb_false_iff in H. destruct H as [H H6].
  rewrite H6. reflexivity.
Qed.

(* in-bounds plain field of width >= 1: value from the slice, stored, offset advanced by the width *)
Theorem set_single_plain : forall T ident anam idx fd o off,
  find_field T anam = Some fd -> is_label_ty (df_ty fd) = false -> plain_name anam = true ->
  pwf o -> 0 <= off -> 1 <= df_bits fd -> off + df_bits fd <= nbits (o_payload o) ->
  set_single T ident anam idx (o, off) =
  (do v <- field_value (df_ty fd) (df_res fd) (slice (o_payload o) off (df_bits fd));
   do o1 <- store_value (df_ty fd) anam idx v o;
   Ok (o1, off + df_bits fd)).
Proof.
  intros T ident anam idx fd o off F L PN P Hoff W B.
  rewrite (set_single_spec T ident anam idx fd o off F L P Hoff).
  unfold field_step. rewrite (field_width_plain T anam fd o PN). cbn [obind].
  replace ((df_bits fd <? 0) || (nbits (o_payload o) <? off + df_bits fd)) with false
    by (symmetry; apply orb_false_iff; split; apply Z.ltb_ge; lia).
  replace (df_bits fd <? 1) with false by (symmetry; apply Z.ltb_ge; lia).
  rewrite andb_false_r.
  destruct (field_value (df_ty fd) (df_res fd) (slice (o_payload o) off (df_bits fd))) as [v| | |]; try reflexivity.
  cbn [obind].
  destruct (store_value (df_ty fd) anam idx v o) as [o1| | |]; try reflexivity. cbn [obind].
  rewrite (extras_plain T ident anam idx _ o1 PN). reflexivity.
Qed.

(* out-of-bounds field: an error, whatever the type (C06) *)
Theorem set_single_oob : forall T ident anam idx fd o off,
  find_field T anam = Some fd -> is_label_ty (df_ty fd) = false -> plain_name anam = true ->
  pwf o -> 0 <= off -> nbits (o_payload o) < off + df_bits fd ->
  set_single T ident anam idx (o, off) = Foreign XValue.
Proof.
  intros T ident anam idx fd o off F L PN P Hoff B.
  rewrite (set_single_spec T ident anam idx fd o off F L P Hoff).
  unfold field_step. rewrite (field_width_plain T anam fd o PN). cbn [obind].
  replace (nbits (o_payload o) <? off + df_bits fd) with true by (symmetry; apply Z.ltb_lt; lia).
  rewrite orb_true_r. reflexivity.
Qed.

(* ---------- per data type ---------- *)
Section PerType.
Variables (T:tables) (ident anam:string) (idx:list Z) (fd:dfield) (o:obj) (off:Z).
Hypothesis F : find_field T anam = Some fd.
Hypothesis PN : plain_name anam = true.
Hypothesis P : pwf o.
Hypothesis Hoff : 0 <= off.
Hypothesis W : 1 <= df_bits fd.
Hypothesis B : off + df_bits fd <= nbits (o_payload o).

Let bitsl := slice (o_payload o) off (df_bits fd).

(* INT: two's complement, scaled, stored under the indexed name *)
Theorem set_single_int : df_ty fd = TINT ->
  set_single T ident anam idx (o, off) =
  (do v <- scale (twos bitsl) (df_res fd);
   do o1 <- setattr o (render_name anam idx) v; Ok (o1, off + df_bits fd)).
Proof.
  intro TY. rewrite (set_single_plain T ident anam idx fd o off F) by (rewrite ?TY; auto).
  rewrite TY. reflexivity.
Qed.

(* SNT: sign and magnitude *)
Theorem set_single_snt : df_ty fd = TSNT ->
  set_single T ident anam idx (o, off) =
  (do v <- scale (signmag bitsl) (df_res fd);
   do o1 <- setattr o (render_name anam idx) v; Ok (o1, off + df_bits fd)).
Proof.
  intro TY. rewrite (set_single_plain T ident anam idx fd o off F) by (rewrite ?TY; auto).
  rewrite TY. reflexivity.
Qed.

(* UINT, BIT, BITX and any type name the decoder does not know: unsigned *)
Theorem set_single_uint :
  (df_ty fd = TUINT \/ df_ty fd = TBIT \/ df_ty fd = TBITX \/ exists s, df_ty fd = TOther s) ->
  set_single T ident anam idx (o, off) =
  (do v <- scale (Z.of_N (uint bitsl)) (df_res fd);
   do o1 <- setattr o (render_name anam idx) v; Ok (o1, off + df_bits fd)).
Proof.
  intro TY.
  assert (L : is_label_ty (df_ty fd) = false) by (destruct TY as [->|[->|[->|[s ->]]]]; reflexivity).
  rewrite (set_single_plain T ident anam idx fd o off F L) by auto.
  destruct TY as [->|[->|[->|[s ->]]]]; reflexivity.
Qed.

(* CHA: one character *)
Theorem set_single_cha : df_ty fd = TCHA -> (uint bitsl < chr_limit)%N -> res_is_unit (df_res fd) = true ->
  set_single T ident anam idx (o, off) =
  (do o1 <- setattr o (render_name anam idx) (VStr [uint bitsl]); Ok (o1, off + df_bits fd)).
Proof.
  intros TY C U. rewrite (set_single_plain T ident anam idx fd o off F) by (rewrite ?TY; auto).
  rewrite TY. cbn [field_value store_value]. fold bitsl.
  replace (chr_limit <=? uint bitsl)%N with false by (symmetry; apply N.leb_gt; exact C).
  rewrite U. reflexivity.
Qed.

(* STR: code unit appended to the attribute named anam (no index suffix); a zero code unit appends nothing *)
Theorem set_single_str : df_ty fd = TSTR -> (uint bitsl < chr_limit)%N ->
  set_single T ident anam idx (o, off) =
  (let new := if (uint bitsl =? 0)%N then [] else [uint bitsl] in
   do o1 <- match assoc anam (o_attrs o) with
            | None => setattr o anam (VStr new)
            | Some (VStr old) => setattr o anam (VStr (old ++ new))
            | Some _ => Foreign XType
            end;
   Ok (o1, off + df_bits fd)).
Proof.
  intros TY C. rewrite (set_single_plain T ident anam idx fd o off F) by (rewrite ?TY; auto).
  rewrite TY. cbn [field_value store_value]. fold bitsl.
  replace (chr_limit <=? uint bitsl)%N with false by (symmetry; apply N.leb_gt; exact C).
  destruct (uint bitsl =? 0)%N; cbn [obind]; cbv zeta;
    (destruct (assoc anam (o_attrs o)) as [[z|f|old]|]; reflexivity).
Qed.
End PerType.

(* ---------- the four names with derived attributes ---------- *)
(* DF394 (satellite mask): NSat := number of set bits *)
Theorem set_single_df394 : forall T ident idx fd o off,
  find_field T "DF394" = Some fd -> is_label_ty (df_ty fd) = false -> pwf o -> 0 <= off ->
  1 <= df_bits fd -> off + df_bits fd <= nbits (o_payload o) ->
  let l := slice (o_payload o) off (df_bits fd) in
  set_single T ident "DF394" idx (o, off) =
  (do v <- field_value (df_ty fd) (df_res fd) l;
   do o1 <- store_value (df_ty fd) "DF394" idx v o;
   do o2 <- setattr o1 (t_nsat T) (VInt (popcount (uint l)));
   Ok (o2, off + df_bits fd)).
Proof.
  intros T ident idx fd o off F L P Hoff W B l.
  rewrite (set_single_spec T ident "DF394" idx fd o off F L P Hoff).
  unfold field_step, field_width. change (String.eqb "DF394" "DF396") with false. cbn [obind].
  replace ((df_bits fd <? 0) || (nbits (o_payload o) <? off + df_bits fd)) with false
    by (symmetry; apply orb_false_iff; split; apply Z.ltb_ge; lia).
  replace (df_bits fd <? 1) with false by (symmetry; apply Z.ltb_ge; lia).
  rewrite andb_false_r. reflexivity.
Qed.

(* DF395 (signal mask): NSig := number of set bits *)
Theorem set_single_df395 : forall T ident idx fd o off,
  find_field T "DF395" = Some fd -> is_label_ty (df_ty fd) = false -> pwf o -> 0 <= off ->
  1 <= df_bits fd -> off + df_bits fd <= nbits (o_payload o) ->
  let l := slice (o_payload o) off (df_bits fd) in
  set_single T ident "DF395" idx (o, off) =
  (do v <- field_value (df_ty fd) (df_res fd) l;
   do o1 <- store_value (df_ty fd) "DF395" idx v o;
   do o2 <- setattr o1 (t_nsig T) (VInt (popcount (uint l)));
   Ok (o2, off + df_bits fd)).
Proof.
  intros T ident idx fd o off F L P Hoff W B l.
  rewrite (set_single_spec T ident "DF395" idx fd o off F L P Hoff).
  unfold field_step, field_width. change (String.eqb "DF395" "DF396") with false. cbn [obind].
  replace ((df_bits fd <? 0) || (nbits (o_payload o) <? off + df_bits fd)) with false
    by (symmetry; apply orb_false_iff; split; apply Z.ltb_ge; lia).
  replace (df_bits fd <? 1) with false by (symmetry; apply Z.ltb_ge; lia).
  rewrite andb_false_r. reflexivity.
Qed.

(* DF396 (cell mask): width NSat*NSig, NCell := number of set bits, then the satellite / cell maps *)
Theorem set_single_df396 : forall T ident idx fd o off nsat nsig,
  find_field T "DF396" = Some fd -> is_label_ty (df_ty fd) = false -> pwf o -> 0 <= off ->
  getint o (t_nsat T) = Ok nsat -> getint o (t_nsig T) = Ok nsig ->
  0 <= nsat * nsig -> off + nsat * nsig <= nbits (o_payload o) ->
  let w := nsat * nsig in
  let l := slice (o_payload o) off w in
  set_single T ident "DF396" idx (o, off) =
  (if needs_sign_bit (df_ty fd) && (w <? 1) then Foreign XValue else
   do v <- field_value (df_ty fd) (df_res fd) l;
   do o1 <- store_value (df_ty fd) "DF396" idx v o;
   do o2 <- setattr o1 (t_ncell T) (VInt (popcount (uint l)));
   do o3 <- getsatcellmaps T ident o2;
   Ok (o3, off + w)).
Proof.
  intros T ident idx fd o off nsat nsig F L P Hoff N1 N2 W B w l.
  rewrite (set_single_spec T ident "DF396" idx fd o off F L P Hoff).
  unfold field_step, field_width. change (String.eqb "DF396" "DF396") with true. cbv iota.
  rewrite N1, N2. cbn [obind]. fold w.
  replace ((w <? 0) || (nbits (o_payload o) <? off + w)) with false
    by (symmetry; apply orb_false_iff; split; apply Z.ltb_ge; unfold w; lia).
  destruct (needs_sign_bit (df_ty fd) && (w <? 1)); [reflexivity|].
  fold l. destruct (field_value (df_ty fd) (df_res fd) l) as [v| | |]; try reflexivity. cbn [obind].
  destruct (store_value (df_ty fd) "DF396" idx v o) as [o1| | |]; try reflexivity. cbn [obind].
  unfold extras. change (String.eqb "DF396" "DF394") with false. change (String.eqb "DF396" "DF395") with false.
  change (String.eqb "DF396" "DF396") with true. cbv iota.
  destruct (setattr o1 (t_ncell T) (VInt (popcount (uint l)))) as [o2| | |]; reflexivity.
Qed.

(* IDF038 (IGS SSR spherical-harmonics order): the two coefficient counts *)
Theorem set_single_idf038 : forall T ident idx fd o off,
  find_field T "IDF038" = Some fd -> is_label_ty (df_ty fd) = false -> pwf o -> 0 <= off ->
  1 <= df_bits fd -> off + df_bits fd <= nbits (o_payload o) ->
  let l := slice (o_payload o) off (df_bits fd) in
  set_single T ident "IDF038" idx (o, off) =
  (do v <- field_value (df_ty fd) (df_res fd) l;
   do o1 <- store_value (df_ty fd) "IDF038" idx v o;
   do o2 <- harmonic_counts T idx o1;
   Ok (o2, off + df_bits fd)).
Proof.
  intros T ident idx fd o off F L P Hoff W B l.
  rewrite (set_single_spec T ident "IDF038" idx fd o off F L P Hoff).
  unfold field_step, field_width. change (String.eqb "IDF038" "DF396") with false. cbn [obind].
  replace ((df_bits fd <? 0) || (nbits (o_payload o) <? off + df_bits fd)) with false
    by (symmetry; apply orb_false_iff; split; apply Z.ltb_ge; lia).
  replace (df_bits fd <? 1) with false by (symmetry; apply Z.ltb_ge; lia).
  rewrite andb_false_r. reflexivity.
Qed.
