(* C07 (serialise / parse round trips) and the stub part of C15, over the message model Model/Message.v.

   construct_payload     what the constructor never changes: payload, payload integer, label option; flag set
   serialize_shape       0xD3, 16-bit big-endian length with six zero bits, payload, CRC-24Q of those bytes
   serialize_oversize    1024..65535 bytes: still serialised, but the reserved bits are non-zero (not a frame)
   serialize_overflow    >= 65536 bytes: OverflowError
   parse_serialize       parse (serialize m) = m      (equal objects: payload, identity, attributes)
   serialize_parse       serialize (parse f) = f      for every valid frame f
   unknown_stub          message numbers without a layout: stub that keeps the payload and re-serialises *)
From Coq Require Import NArith ZArith List String Bool Lia.
From Coq.Strings Require Import Byte.
From PyRtcm Require Import Base.Bytes Base.Dec Model.Types Model.Crc Model.Message Model.Reader.
From PyRtcm Require Import Spec.CrcPoly Spec.Frame Spec.FieldGrammar.
From PyRtcm Require Spec.Items.
From PyRtcm Require Import Proofs.CrcProofs Proofs.ReaderProofs Proofs.DecodeWalk Proofs.DecodeExtend.
Import ListNotations.
Open Scope list_scope.

(* ================= what the constructor leaves alone ================= *)
Lemma decode_raw_frame T o s : decode_raw T o = Ok s ->
  o_payload (fst s) = o_payload o /\ o_payloadi (fst s) = o_payloadi o /\
  o_immutable (fst s) = o_immutable o /\ o_labelmsm (fst s) = o_labelmsm o.
Proof.
  unfold decode_raw. intro E. apply obind_ok_inv in E. destruct E as [ident [_ E]].
  destruct (get_dict T ident) as [pd|].
  - apply walk_body_frame in E. cbn [fst] in E. destruct E as (A & B & C & D & _). auto.
  - apply obind_ok_inv in E. destruct E as [o1 [E1 E]]. apply ok_inj in E. subst s. cbn [fst].
    apply setattr_frame in E1. destruct E1 as (A & B & C & D & _). cbn. auto.
Qed.

Theorem construct_payload : forall T p l o,
  construct T (Some p) l = Ok o ->
  o_payload o = p /\ o_labelmsm o = l /\ o_immutable o = true.
Proof.
  intros T p l o E. apply construct_ok_run in E. destruct E as [o1 [t [E ->]]].
  apply decode_run_ok_inv in E. destruct E as [_ E].
  apply decode_raw_frame in E. cbn [fst] in E. destruct E as (A & _ & _ & D).
  cbn. repeat split; assumption.
Qed.

Lemma construct_payloadi T p l o : construct T (Some p) l = Ok o -> o_payloadi o = be p.
Proof.
  intro E. apply construct_ok_run in E. destruct E as [o1 [t [E ->]]].
  apply decode_run_ok_inv in E. destruct E as [_ E].
  apply decode_raw_frame in E. cbn [fst] in E. destruct E as (_ & B & _). exact B.
Qed.

Lemma construct_guard T p l o : construct T (Some p) l = Ok o -> too_short p = false.
Proof.
  intro E. destruct (too_short p) eqn:G; [|reflexivity].
  rewrite (construct_short T p l G) in E. discriminate E.
Qed.

(* ================= the two length bytes ================= *)
Lemma bN_byte_of_N_mod n : bN (byte_of_N n) = (n mod 256)%N.
Proof.
  assert (E : byte_of_N n = byte_of_N (n mod 256)).
  { unfold byte_of_N. rewrite N.mod_mod by discriminate. reflexivity. }
  rewrite E. apply bN_byte_of. apply N.mod_lt. discriminate.
Qed.

Lemma len2bytes_ok p : (N.of_nat (List.length p) < 65536)%N ->
  len2bytes p = Some [Items.len_hi (List.length p); Items.len_lo (List.length p)].
Proof.
  intro H. unfold len2bytes, to_bytes. change (256 ^ N.of_nat 2)%N with 65536%N.
  apply N.ltb_lt in H. rewrite H. reflexivity.
Qed.

Lemma len2bytes_overflow p : (65536 <= N.of_nat (List.length p))%N -> len2bytes p = None.
Proof.
  intro H. unfold len2bytes, to_bytes. change (256 ^ N.of_nat 2)%N with 65536%N.
  apply N.ltb_ge in H. rewrite H. reflexivity.
Qed.

Lemma len_bytes_value n : (N.of_nat n < 65536)%N ->
  (bN (Items.len_hi n) * 256 + bN (Items.len_lo n) = N.of_nat n)%N /\
  bN (Items.len_hi n) = (N.of_nat n / 256)%N.
Proof.
  intro H. unfold Items.len_hi, Items.len_lo. rewrite !bN_byte_of_N_mod.
  assert (D : (N.of_nat n / 256 < 256)%N) by (apply N.div_lt_upper_bound; [discriminate|exact H]).
  rewrite (N.mod_small _ _ D). split; [|reflexivity].
  pose proof (N.div_mod (N.of_nat n) 256). lia.
Qed.

(* two bytes are determined by the 16-bit number they spell *)
Lemma two_bytes_inj a b c d : (bN a * 256 + bN b = bN c * 256 + bN d)%N -> a = c /\ b = d.
Proof.
  intro H. pose proof (bN_lt a). pose proof (bN_lt b). pose proof (bN_lt c). pose proof (bN_lt d).
  split; apply bN_inj; lia.
Qed.

(* ================= the trailer is determined by the bytes before it ================= *)
Lemma be3_inj (c d:bytes) : List.length c = 3%nat -> List.length d = 3%nat -> be c = be d -> c = d.
Proof.
  intros Hc Hd.
  destruct c as [|c0 [|c1 [|c2 [|? ?]]]]; try discriminate Hc.
  destruct d as [|d0 [|d1 [|d2 [|? ?]]]]; try discriminate Hd.
  unfold be. cbn [be_acc]. intro E.
  pose proof (bN_lt c0). pose proof (bN_lt c1). pose proof (bN_lt c2).
  pose proof (bN_lt d0). pose proof (bN_lt d1). pose proof (bN_lt d2).
  assert (bN c0 = bN d0 /\ bN c1 = bN d1 /\ bN c2 = bN d2) as (A & B & C) by lia.
  apply bN_inj in A, B, C. congruence.
Qed.

Lemma crc_trailer_value (m c:bytes) :
  List.length c = 3%nat -> calc_crc24q (m ++ c) = 0%N -> be c = calc_crc24q m.
Proof.
  intros Hc Z0.
  destruct (crc24q_spec m) as [Hr [q Hq]].
  apply undetected_multiple in Z0. destruct Z0 as [q' Hq'].
  rewrite be_app_lxor, Hc in Hq'. change (8 * N.of_nat 3)%N with 24%N in Hq'.
  set (r := calc_crc24q m) in *.
  assert (Hb : (be c < 2^24)%N).
  { pose proof (be_lt c) as L. rewrite Hc in L. exact L. }
  assert (M : clmul (N.lxor q' (N.shiftl q 24)) G = N.shiftl (N.lxor r (be c)) 24).
  { rewrite clmul_lxor_l, clmul_shiftl_l, Hq', <- N.shiftl_lxor. f_equal.
    rewrite <- Hq. xor_ring. }
  destruct (N.eq_dec (N.lxor r (be c)) 0) as [E|NE].
  - apply N.lxor_eq in E. symmetry. exact E.
  - exfalso. apply (shiftl_small_not_multiple (N.lxor r (be c)) 24 (N.lxor q' (N.shiftl q 24))); [|exact M].
    split; [lia|]. apply lxor_lt; assumption.
Qed.

Lemma crc_trailer_unique (m c:bytes) :
  List.length c = 3%nat -> calc_crc24q (m ++ c) = 0%N -> crc2bytes m = Some c.
Proof.
  intros Hc Z0. destruct (CrcProofs.crc2bytes_total m) as [c0 [E [L0 B0]]].
  rewrite E. f_equal. apply be3_inj; [exact L0|exact Hc|].
  rewrite B0. symmetry. apply crc_trailer_value; assumption.
Qed.

(* ================= serialize ================= *)
Section Serialize.
Variable T : tables.
Hypothesis HDR : t_rtcm_hdr T = [xd3].

(* every payload shorter than 65536 bytes is serialised, and the result is Spec.Items.frame *)
Lemma serialize_payload_frame p : (N.of_nat (List.length p) < 65536)%N ->
  serialize_payload T p = Ok (Items.frame p).
Proof.
  intro H. unfold serialize_payload. rewrite (len2bytes_ok p H), HDR.
  rewrite Items.crc2bytes_total. reflexivity.
Qed.

Theorem serialize_overflow : forall p, (65536 <= N.of_nat (List.length p))%N ->
  serialize_payload T p = Foreign XOverflow.
Proof. intros p H. unfold serialize_payload. rewrite (len2bytes_overflow p H). reflexivity. Qed.

Lemma frame_crc_zero p : calc_crc24q (Items.frame p) = 0%N.
Proof.
  unfold Items.frame. rewrite app_assoc. apply crc_self_check. apply Items.frame_crc_crc2bytes.
Qed.

Lemma frame_crc_spec p :
  List.length (Items.frame_crc p) = 3%nat /\ be (Items.frame_crc p) = calc_crc24q (Items.frame_head p ++ p).
Proof. apply crc2bytes_inv. apply Items.frame_crc_crc2bytes. Qed.

Lemma wf_frame_frame p : (List.length p <= 1023)%nat -> wf_frame (Items.frame p).
Proof.
  intro H.
  assert (H' : (N.of_nat (List.length p) < 65536)%N) by lia.
  destruct (len_bytes_value (List.length p) H') as [V Hi].
  exists (Items.len_hi (List.length p)), (Items.len_lo (List.length p)), p, (Items.frame_crc p).
  split; [reflexivity|]. split.
  { rewrite Hi. apply N.div_lt_upper_bound; [discriminate|lia]. }
  split; [rewrite V; lia|]. split; [apply frame_crc_spec|apply frame_crc_zero].
Qed.

(* 1. C07: the exact shape of the serialised message *)
Theorem serialize_shape : forall p, (List.length p <= 1023)%nat ->
  exists hi lo c,
    serialize_payload T p = Ok ([xd3; hi; lo] ++ p ++ c) /\
    (bN hi * 256 + bN lo = N.of_nat (List.length p))%N /\ (bN hi < 4)%N /\
    List.length c = 3%nat /\ be c = calc_crc24q ([xd3; hi; lo] ++ p) /\
    wf_frame ([xd3; hi; lo] ++ p ++ c).
Proof.
  intros p H.
  assert (H' : (N.of_nat (List.length p) < 65536)%N) by lia.
  destruct (len_bytes_value (List.length p) H') as [V Hi].
  exists (Items.len_hi (List.length p)), (Items.len_lo (List.length p)), (Items.frame_crc p).
  split; [apply serialize_payload_frame, H'|]. split; [exact V|].
  split. { rewrite Hi. apply N.div_lt_upper_bound; [discriminate|lia]. }
  split; [apply frame_crc_spec|]. split; [apply frame_crc_spec|].
  apply (wf_frame_frame p H).
Qed.

(* payloads of 1024..65535 bytes: pyrtcm still serialises them, but the six reserved bits of the header are
   no longer zero, so the output is not an RTCM3 frame (and the stream reader does not accept it) *)
Theorem serialize_oversize : forall p, (1024 <= List.length p)%nat -> (N.of_nat (List.length p) < 65536)%N ->
  exists hi lo c,
    serialize_payload T p = Ok ([xd3; hi; lo] ++ p ++ c) /\
    (bN hi * 256 + bN lo = N.of_nat (List.length p))%N /\ (4 <= bN hi)%N /\
    List.length c = 3%nat /\ be c = calc_crc24q ([xd3; hi; lo] ++ p) /\
    calc_crc24q ([xd3; hi; lo] ++ p ++ c) = 0%N /\
    ~ frame_shape ([xd3; hi; lo] ++ p ++ c).
Proof.
  intros p H H'.
  destruct (len_bytes_value (List.length p) H') as [V Hi].
  exists (Items.len_hi (List.length p)), (Items.len_lo (List.length p)), (Items.frame_crc p).
  assert (G4 : (4 <= bN (Items.len_hi (List.length p)))%N).
  { rewrite Hi. apply N.div_le_lower_bound; [discriminate|lia]. }
  split; [apply serialize_payload_frame, H'|]. split; [exact V|]. split; [exact G4|].
  split; [apply frame_crc_spec|]. split; [apply frame_crc_spec|]. split; [apply (frame_crc_zero p)|].
  intros (b1 & b2 & p' & c' & E & B & _). cbn [app] in E. injection E as E1 _ _. subst b1. lia.
Qed.

(* 2. C07: parsing the serialised message gives back the very same message object (for every validate option,
   every label option, and in fact every payload length for which serialize succeeds) *)
Theorem parse_serialize_gen : forall p l o v f,
  construct T (Some p) l = Ok o -> serialize T o = Ok f ->
  parse (fun q l' => construct T (Some q) l') 1 v l f = Ok o.
Proof.
  intros p l o v f C S. destruct (construct_payload T p l o C) as (P & _ & _).
  unfold serialize in S. rewrite P in S.
  destruct (N.lt_ge_cases (N.of_nat (List.length p)) 65536) as [H|H].
  - rewrite (serialize_payload_frame p H) in S. apply ok_inj in S. subst f.
    rewrite parse_validate_on_good by apply frame_crc_zero.
    unfold Items.frame, Items.frame_head. rewrite payload_of_frame by apply frame_crc_spec. exact C.
  - rewrite (serialize_overflow p H) in S. discriminate S.
Qed.

Theorem parse_serialize : forall p l o,
  construct T (Some p) l = Ok o -> (List.length p <= 1023)%nat ->
  forall v f, serialize T o = Ok f ->
  parse (fun q l' => construct T (Some q) l') 1 v l f = Ok o.
Proof. intros p l o C _ v f S. eapply parse_serialize_gen; eassumption. Qed.

(* ... and serialisation of a constructed message of legal size always succeeds *)
Theorem serialize_constructed : forall p l o,
  construct T (Some p) l = Ok o -> (List.length p <= 1023)%nat ->
  serialize T o = Ok (Items.frame p) /\ wf_frame (Items.frame p).
Proof.
  intros p l o C H. destruct (construct_payload T p l o C) as (P & _ & _).
  unfold serialize. rewrite P. split; [apply serialize_payload_frame; lia|apply wf_frame_frame, H].
Qed.

(* a valid frame is the frame of its payload: header bytes fixed by the length, trailer by the CRC *)
Lemma wf_frame_is_frame f : wf_frame f -> f = Items.frame (payload_of f) /\ (List.length (payload_of f) <= 1023)%nat.
Proof.
  intros (b1 & b2 & p & c & E & B1 & L & Lc & Z0). subst f.
  rewrite (payload_of_frame b1 b2 p c Lc).
  pose proof (bN_lt b2) as B2.
  assert (Lp : (List.length p <= 1023)%nat) by lia.
  split; [|exact Lp].
  assert (H' : (N.of_nat (List.length p) < 65536)%N) by lia.
  destruct (len_bytes_value (List.length p) H') as [V _].
  assert (V2 : (bN (Items.len_hi (List.length p)) * 256 + bN (Items.len_lo (List.length p)) = bN b1 * 256 + bN b2)%N) by lia.
  apply two_bytes_inj in V2. destruct V2 as [<- <-].
  unfold Items.frame. fold (Items.frame_head p). do 2 f_equal.
  rewrite app_assoc in Z0. apply crc_trailer_unique in Z0; [|exact Lc].
  fold (Items.frame_head p) in Z0. rewrite Items.frame_crc_crc2bytes in Z0. injection Z0 as <-. reflexivity.
Qed.

(* 3. C07: parse then serialise reproduces the frame byte for byte *)
Theorem serialize_parse : forall f v l o,
  wf_frame f -> parse (fun q l' => construct T (Some q) l') 1 v l f = Ok o -> serialize T o = Ok f.
Proof.
  intros f v l o W P.
  assert (Z0 : calc_crc24q f = 0%N) by (destruct W as (? & ? & ? & ? & _ & _ & _ & _ & Z0); exact Z0).
  rewrite parse_validate_on_good in P by exact Z0.
  destruct (construct_payload T _ l o P) as (Pl & _ & _).
  destruct (wf_frame_is_frame f W) as [E L].
  unfold serialize. rewrite Pl. rewrite serialize_payload_frame by lia. f_equal. symmetry. exact E.
Qed.

(* 8. C15: a message number without layout gives a stub that keeps the payload and re-serialises *)
Theorem unknown_stub : forall p l ident,
  too_short p = false -> identity p = Ok ident -> get_dict T ident = None ->
  exists o, construct T (Some p) l = Ok o /\ o_payload o = p /\ o_unknown o = true /\
            o_immutable o = true /\ o_labelmsm o = l /\ o_satmap o = None /\ o_cellmap o = None /\
            o_attrs o = [("DF002"%string, VStr (codes ident))] /\
            ((List.length p <= 1023)%nat ->
               serialize T o = Ok (Items.frame p) /\ wf_frame (Items.frame p) /\
               forall v, parse (fun q l' => construct T (Some q) l') 1 v l (Items.frame p) = Ok o).
Proof.
  intros p l ident G I D.
  pose proof (decode_unknown T p l ident G I D) as E.
  eexists. split; [apply construct_ok_run; eexists; eexists; split; [exact E|reflexivity]|].
  do 7 (split; [reflexivity|]). intro L. split; [|split].
  - apply serialize_payload_frame. lia.
  - apply wf_frame_frame. exact L.
  - intro v. rewrite parse_validate_on_good by apply frame_crc_zero.
    unfold Items.frame, Items.frame_head. rewrite payload_of_frame by apply frame_crc_spec.
    apply construct_ok_run. eexists; eexists; split; [exact E|reflexivity].
Qed.

End Serialize.

(* the stub, without the framing hypothesis *)
Theorem unknown_stub_object : forall T p l ident,
  too_short p = false -> identity p = Ok ident -> get_dict T ident = None ->
  exists o, construct T (Some p) l = Ok o /\ o_payload o = p /\ o_unknown o = true /\
            o_attrs o = [("DF002"%string, VStr (codes ident))].
Proof.
  intros T p l ident G I D.
  pose proof (decode_unknown T p l ident G I D) as E.
  eexists. split; [apply construct_ok_run; eexists; eexists; split; [exact E|reflexivity]|].
  cbn. repeat split.
Qed.
