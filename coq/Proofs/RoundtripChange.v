(* C03: "changing the bits of one plain field changes that attribute only".
   Two descriptions (raw value lists) that differ in exactly one position, whose field is plain - its
   attribute is not read back as a repeat count, a condition, a mask, a mask count or a harmonic degree -
   are laid out with the same control flow and produce attribute lists equal except at that attribute. *)
From Coq Require Import NArith ZArith List String Bool Lia.
From PyRtcm Require Import Base.Bytes Base.Dec Model.Types Model.Message Spec.FieldGrammar Spec.MsmMasks Spec.Encoder.
From PyRtcm Require Import Proofs.DecodeWalk Proofs.DecodeExtend Proofs.RoundtripBase Proofs.DecodeRoundtrip Proofs.RoundtripOccur.
Import ListNotations.
Open Scope list_scope.
Open Scope Z_scope.

(* ================= string prefixes ================= *)
Lemma prefix_refl a : String.prefix a a = true.
Proof. induction a as [|c a IH]; [reflexivity|]. cbn. destruct (Ascii.ascii_dec c c); [exact IH|congruence]. Qed.

Lemma prefix_app_r a : forall b c, String.prefix a b = true -> String.prefix a (b ++ c)%string = true.
Proof.
  induction a as [|x a IH]; intros b c H; [destruct (b ++ c)%string; reflexivity|].
  destruct b as [|y b]; [discriminate|]. cbn in *.
  destruct (Ascii.ascii_dec x y); [apply IH, H|discriminate].
Qed.

Lemma prefix_app a c : String.prefix a (a ++ c)%string = true.
Proof. apply prefix_app_r, prefix_refl. Qed.

Lemma render_name_prefix key idxs : String.prefix key (render_name key idxs) = true.
Proof.
  unfold render_name.
  assert (G : forall s, String.prefix key s = true ->
            String.prefix key (fold_left (fun s i => if 0 <? i then (s ++ idx_suffix i)%string else s) idxs s) = true).
  { induction idxs as [|i r IH]; intros s H; [exact H|]. cbn [fold_left]. apply IH.
    destruct (0 <? i); [apply prefix_app_r, H|exact H]. }
  apply G, prefix_refl.
Qed.

Lemma occ_name_prefix ty key idxs : String.prefix key (occ_name ty key idxs) = true.
Proof. unfold occ_name. destruct ty; try apply render_name_prefix. apply prefix_refl. Qed.

Lemma suffix_indices_prefix n idxs k nm : suffix_indices n idxs k = Some nm -> String.prefix k nm = true.
Proof.
  unfold suffix_indices. destruct (List.length idxs <? n)%nat; [discriminate|].
  destruct (existsb (fun i => i <? 0) (firstn n idxs)); [discriminate|]. intro H. inversion H. clear H.
  assert (G : forall l s, String.prefix k s = true ->
            String.prefix k (fold_left (fun s i => (s ++ idx_suffix i)%string) l s) = true).
  { induction l as [|i r IH]; intros s H; [exact H|]. cbn [fold_left]. apply IH, prefix_app_r, H. }
  apply G, prefix_refl.
Qed.

Lemma count_name_prefix key idxs cn :
  count_name key idxs = Some cn -> String.prefix (fst (split_plus key)) cn = true.
Proof.
  unfold count_name. destruct (split_plus key) as [k [nl|]]; cbn [fst].
  - destruct (contains "+" nl); [discriminate|]. destruct (N_of_str nl) as [n|]; [|discriminate].
    apply suffix_indices_prefix.
  - intro H. inversion H. apply prefix_refl.
Qed.

Lemma prefix_neq k x nm : String.prefix k nm = false -> String.prefix k x = true -> x <> nm.
Proof. intros H1 H2 E. subst. congruence. Qed.

(* ================= which attribute names the walk may read back ================= *)
Definition reserved (T:tables) (nm:string) : bool :=
  String.eqb nm (t_nsat T) || String.eqb nm (t_nsig T) ||
  String.prefix "DF394" nm || String.prefix "DF395" nm || String.prefix "DF396" nm ||
  String.prefix "IDF037" nm || String.prefix "IDF038" nm.

Definition count_reads (nm:string) (c:count) : bool :=
  match c with CNamed key => String.prefix (fst (split_plus key)) nm | _ => false end.

Fixpoint item_reads (nm:string) (it:item) : bool :=
  match it with
  | IField _ => false
  | IBad _ => false
  | IGroup c b => count_reads nm c || body_reads nm b
  | IOpt k _ b => String.eqb k nm || body_reads nm b
  end
with body_reads (nm:string) (b:body) : bool :=
  match b with
  | BNotDict _ => false
  | BItems l => (fix go (l:list (string*item)) : bool :=
                   match l with [] => false | (_, it) :: r => item_reads nm it || go r end) l
  end.

Definition items_reads (nm:string) : list (string*item) -> bool :=
  fix go (l:list (string*item)) : bool := match l with [] => false | (_, it) :: r => item_reads nm it || go r end.

(* decidable by computation for a concrete table, layout and name *)
Definition plain_attr (T:tables) (b:body) (nm:string) : bool := negb (reserved T nm || body_reads nm b).

(* ================= dictionaries equal except (possibly) at one name ================= *)
Section Agree.
Variable P : Prop.            (* True: the values at nm are free; False: plain equality *)
Variable nm : string.

Definition agreeP (a1 a2:attrs) : Prop :=
  Forall2 (fun e1 e2 => fst e1 = fst e2 /\ (snd e1 = snd e2 \/ (fst e1 = nm /\ P))) a1 a2.

Lemma agreeP_refl a : agreeP a a.
Proof. induction a; constructor; auto. Qed.

Lemma agreeP_assoc a1 a2 k : agreeP a1 a2 ->
  match assoc k a1, assoc k a2 with
  | None, None => True
  | Some x, Some y => x = y \/ (k = nm /\ P)
  | _, _ => False
  end.
Proof.
  induction 1 as [|[k1 x1] [k2 x2] r1 r2 [K V] _ IH]; cbn [assoc]; [exact I|].
  cbn [fst snd] in K, V. subst k2. destruct (String.eqb k1 k) eqn:E; [|exact IH].
  apply String.eqb_eq in E. subst k1. exact V.
Qed.

Lemma agreeP_assoc_other a1 a2 k : agreeP a1 a2 -> k <> nm -> assoc k a1 = assoc k a2.
Proof.
  intros A NE. pose proof (agreeP_assoc a1 a2 k A) as H.
  destruct (assoc k a1); destruct (assoc k a2); try contradiction; [|reflexivity].
  destruct H as [->|[E _]]; [reflexivity|contradiction].
Qed.

Lemma agreeP_attr_int a1 a2 k : agreeP a1 a2 -> k <> nm -> attr_int a1 k = attr_int a2 k.
Proof. intros A NE. unfold attr_int. now rewrite (agreeP_assoc_other a1 a2 k A NE). Qed.

Lemma agreeP_upd a1 a2 k v1 v2 : agreeP a1 a2 -> (v1 = v2 \/ (k = nm /\ P)) -> agreeP (upd k v1 a1) (upd k v2 a2).
Proof.
  intros A V. induction A as [|[k1 x1] [k2 x2] r1 r2 [K V1] A IH]; cbn [upd].
  - constructor; [|constructor]. split; [reflexivity|exact V].
  - cbn [fst snd] in K, V1. subst k2. destruct (String.eqb k1 k) eqn:E.
    + apply String.eqb_eq in E. subst k1. constructor; [|exact A]. split; [reflexivity|exact V].
    + constructor; [|exact IH]. split; [reflexivity|exact V1].
Qed.

Lemma agreeP_upd_same a1 a2 k v : agreeP a1 a2 -> agreeP (upd k v a1) (upd k v a2).
Proof. intro A. apply agreeP_upd; auto. Qed.
End Agree.

Lemma agreeP_False_eq nm a1 a2 : agreeP False nm a1 a2 -> a1 = a2.
Proof.
  induction 1 as [|[k1 x1] [k2 x2] r1 r2 [K V] _ IH]; [reflexivity|].
  cbn [fst snd] in K, V. destruct V as [V|[_ []]]. now subst.
Qed.

Lemma agreeP_weaken (P:Prop) nm a1 a2 : a1 = a2 -> agreeP P nm a1 a2.
Proof. intros ->. apply agreeP_refl. Qed.

(* the public notion *)
Definition agree_except (nm:string) (a1 a2:attrs) : Prop := agreeP True nm a1 a2.

Lemma agree_except_names nm a1 a2 : agree_except nm a1 a2 -> map fst a1 = map fst a2.
Proof. induction 1 as [|e1 e2 r1 r2 [K _] _ IH]; cbn [map]; [reflexivity|]. now rewrite K, IH. Qed.

Lemma agree_except_values nm a1 a2 k : agree_except nm a1 a2 -> k <> nm -> assoc k a1 = assoc k a2.
Proof. apply agreeP_assoc_other. Qed.

(* ================= the value-consuming occurrences of a trace ================= *)
Definition is_val_occ (e:string*okind) : bool :=
  match snd e with OField ty => negb (is_label_ty ty) | _ => false end.
Definition val_names (occ:list (string*okind)) : list string := map fst (filter is_val_occ occ).

Lemma val_names_app a b : val_names (a ++ b) = val_names a ++ val_names b.
Proof. unfold val_names. now rewrite filter_app, map_app. Qed.

Definition occ_grow (s s':est) : Prop := exists d, e_occ s' = e_occ s ++ d.

Lemma occ_grow_refl s : occ_grow s s.
Proof. exists []. now rewrite app_nil_r. Qed.

Lemma occ_grow_trans a b c : occ_grow a b -> occ_grow b c -> occ_grow a c.
Proof. intros [d1 E1] [d2 E2]. exists (d1 ++ d2). rewrite E2, E1. now rewrite app_assoc. Qed.

Lemma occ_grow_field T ident rinex key idxs s s' : enc_field T ident rinex key idxs s = Some s' -> occ_grow s s'.
Proof.
  unfold enc_field. destruct (find_field T key) as [fd|]; [|discriminate].
  destruct (is_label_ty (df_ty fd)); intro H.
  - apply enc_label_field_inv in H. destruct H as [_ [_ [_ [_ [O _]]]]]. eexists. exact O.
  - apply enc_bits_field_inv in H.
    destruct H as [v [rest [w [val [a1 [_ [_ [_ [_ [_ [_ [_ [_ [x O]]]]]]]]]]]]]]. eexists. exact O.
Qed.

Lemma occ_grow_body T ident rinex b idxs s s' : enc_body T ident rinex b idxs s = Some s' -> occ_grow s s'.
Proof. apply (ebody_pres T ident rinex occ_grow occ_grow_refl occ_grow_trans (occ_grow_field T ident rinex)). Qed.

Lemma occ_grow_erep T ident rinex b idxs n i s s' :
  erep (enc_body T ident rinex b) idxs n i s = Some s' -> occ_grow s s'.
Proof.
  apply (erep_pres occ_grow occ_grow_refl occ_grow_trans). intros idxs0 s0 s0'. apply occ_grow_body.
Qed.

Lemma occ_grow_items T ident rinex idxs l s s' : enc_items T ident rinex idxs l s = Some s' -> occ_grow s s'.
Proof. rewrite <- enc_body_items. apply occ_grow_body. Qed.

Definition trace_in (F:list string) (s:est) : Prop := exists tl, val_names (e_occ s) ++ tl = F.

Lemma trace_back F s s' : occ_grow s s' -> trace_in F s' -> trace_in F s.
Proof. intros [d E] [tl H]. exists (val_names d ++ tl). rewrite <- H, E, val_names_app. now rewrite app_assoc. Qed.

(* ================= the lock step ================= *)
Section Change.
Variables (T:tables) (ident:string) (rinex:bool).
Variable nm : string.        (* the attribute of the changed field *)
Variable j : nat.            (* its position among the raw values *)
Variable F : list string.    (* value-consuming occurrences of run 1, complete *)
Hypothesis HF : nth_error F j = Some nm.
Hypothesis HR : reserved T nm = false.

Lemma reserved_facts :
  t_nsat T <> nm /\ t_nsig T <> nm /\
  String.prefix "DF394" nm = false /\ String.prefix "DF395" nm = false /\ String.prefix "DF396" nm = false /\
  String.prefix "IDF037" nm = false /\ String.prefix "IDF038" nm = false.
Proof.
  unfold reserved in HR.
  apply orb_false_iff in HR. destruct HR as [H H7].
  apply orb_false_iff in H. destruct H as [H H6].
  apply orb_false_iff in H. destruct H as [H H5].
  apply orb_false_iff in H. destruct H as [H H4].
  apply orb_false_iff in H. destruct H as [H H3].
  apply orb_false_iff in H. destruct H as [H1 H2].
  apply String.eqb_neq in H1, H2. repeat split; auto.
Qed.

Record Rel (s1 s2:est) : Prop := {
  r_sat : e_sat s1 = e_sat s2;
  r_cell : e_cell s1 = e_cell s2;
  r_occ : e_occ s1 = e_occ s2;
  r_agree : agreeP True nm (e_attrs s1) (e_attrs s2);
  r_vals : e_vals s1 = e_vals s2 \/
           (e_attrs s1 = e_attrs s2 /\
            exists pre v1 v2 post, e_vals s1 = pre ++ v1 :: post /\ e_vals s2 = pre ++ v2 :: post /\
                                   (List.length (val_names (e_occ s1)) + List.length pre = j)%nat)
}.

(* ---- reads under agreement ---- *)
Section Reads.
Variable P : Prop.

Lemma enc_width_agree key fd a1 a2 : agreeP P nm a1 a2 -> enc_width T key fd a1 = enc_width T key fd a2.
Proof.
  intro A. destruct reserved_facts as [N1 [N2 _]]. unfold enc_width.
  destruct (String.eqb key "DF396"); [|reflexivity].
  rewrite (agreeP_attr_int P nm a1 a2 _ A N1), (agreeP_attr_int P nm a1 a2 _ A N2). reflexivity.
Qed.

Lemma enc_maps_agree a1 a2 : agreeP P nm a1 a2 -> enc_maps T ident rinex a1 = enc_maps T ident rinex a2.
Proof.
  intro A. destruct reserved_facts as [_ [_ [N4 [N5 [N6 _]]]]]. unfold enc_maps.
  destruct (assoc (substring 0 3 ident) (t_prnsig T)) as [[prnmap sigmap]|]; [|reflexivity].
  rewrite (agreeP_attr_int P nm a1 a2 "DF394" A) by (apply (prefix_neq "DF394"); [exact N4|reflexivity]).
  rewrite (agreeP_attr_int P nm a1 a2 "DF395" A) by (apply (prefix_neq "DF395"); [exact N5|reflexivity]).
  rewrite (agreeP_attr_int P nm a1 a2 "DF396" A) by (apply (prefix_neq "DF396"); [exact N6|reflexivity]).
  reflexivity.
Qed.

Lemma enc_harm_agree idxs a1 a2 b1 b2 : agreeP P nm a1 a2 ->
  enc_harm T idxs a1 = Some b1 -> enc_harm T idxs a2 = Some b2 -> agreeP P nm b1 b2.
Proof.
  intros A H1 H2. destruct reserved_facts as [_ [_ [_ [_ [_ [N7 N8]]]]]]. unfold enc_harm in *.
  destruct idxs as [|i r]; [discriminate|]. destruct (i <? 0); [discriminate|].
  rewrite <- (agreeP_attr_int P nm a1 a2 _ A) in H2
    by (apply (prefix_neq "IDF037"); [exact N7|apply (prefix_app_r "IDF037" "IDF037_"); reflexivity]).
  rewrite <- (agreeP_attr_int P nm a1 a2 _ A) in H2
    by (apply (prefix_neq "IDF038"); [exact N8|apply (prefix_app_r "IDF038" "IDF038_"); reflexivity]).
  apply obnd_some in H1. destruct H1 as [n0 [E1 H1]]. rewrite E1 in H2. cbn [obnd] in H2.
  apply obnd_some in H1. destruct H1 as [m0 [E2 H1]]. rewrite E2 in H2. cbn [obnd] in H2.
  destruct ((2 ^ 24 <? Z.abs (n0 + 1)) || (2 ^ 24 <? Z.abs (m0 + 1))); [discriminate|].
  inversion H1. inversion H2. apply agreeP_upd_same, agreeP_upd_same, A.
Qed.

Lemma enc_store_agree ty key idxs v a1 a2 b1 b2 : agreeP P nm a1 a2 ->
  enc_store ty key idxs v a1 = Some b1 -> enc_store ty key idxs v a2 = Some b2 -> agreeP P nm b1 b2.
Proof.
  intros A H1 H2.
  destruct (enc_store_name _ _ _ _ _ _ H1) as [x1 X1]. destruct (enc_store_name _ _ _ _ _ _ H2) as [x2 X2].
  unfold enc_store in H1, H2.
  destruct ty; try (inversion H1; inversion H2; apply agreeP_upd_same, A).
  (* STR *)
  pose proof (agreeP_assoc P nm a1 a2 key A) as K.
  destruct (assoc key a1) as [o1|]; destruct (assoc key a2) as [o2|]; try contradiction.
  - destruct K as [<-|[E HP]].
    + destruct o1 as [z|f|old]; try discriminate. destruct v as [z|f|new]; try discriminate.
      inversion H1. inversion H2. apply agreeP_upd_same, A.
    + subst b1 b2. unfold occ_name. apply agreeP_upd; [exact A|right; auto].
  - inversion H1. inversion H2. apply agreeP_upd_same, A.
Qed.

Lemma count_of_agree c idxs a1 a2 : agreeP P nm a1 a2 -> count_reads nm c = false ->
  count_of c idxs a1 = count_of c idxs a2.
Proof.
  intros A NR. destruct c as [n|key|w]; cbn [count_of]; try reflexivity.
  destruct (count_name key idxs) as [cn|] eqn:CN; [|reflexivity]. cbn [obnd].
  cbn [count_reads] in NR.
  rewrite (agreeP_attr_int P nm a1 a2 cn A); [reflexivity|].
  apply (prefix_neq (fst (split_plus key))); [exact NR|apply (count_name_prefix key idxs), CN].
Qed.

(* one bit-carrying field fed the same raw value in both runs *)
Lemma bits_field_same key idxs fd s1 s2 s1' s2' v r1 r2 :
  enc_bits_field T ident rinex key idxs fd s1 = Some s1' ->
  enc_bits_field T ident rinex key idxs fd s2 = Some s2' ->
  e_vals s1 = v :: r1 -> e_vals s2 = v :: r2 ->
  e_sat s1 = e_sat s2 -> e_cell s1 = e_cell s2 -> e_occ s1 = e_occ s2 ->
  agreeP P nm (e_attrs s1) (e_attrs s2) ->
  e_sat s1' = e_sat s2' /\ e_cell s1' = e_cell s2' /\ e_occ s1' = e_occ s2' /\
  agreeP P nm (e_attrs s1') (e_attrs s2') /\ e_vals s1' = r1 /\ e_vals s2' = r2.
Proof.
  intros H1 H2 V1 V2 ES EC EO A.
  unfold enc_bits_field in H1, H2. rewrite V1 in H1. rewrite V2 in H2.
  rewrite <- (enc_width_agree key fd _ _ A) in H2.
  destruct (enc_width T key fd (e_attrs s1)) as [w|]; [|discriminate]. cbn [obnd] in H1, H2.
  destruct ((w <? 0) || (needs_sign_bit (df_ty fd) && (w <? 1))); [discriminate|].
  destruct (field_value (df_ty fd) (df_res fd) (bits_of (Z.to_nat w) v)) as [val| | |]; try discriminate.
  apply obnd_some in H1. destruct H1 as [b1 [ST1 H1]].
  apply obnd_some in H2. destruct H2 as [b2 [ST2 H2]].
  pose proof (enc_store_agree _ _ _ _ _ _ _ _ A ST1 ST2) as A1.
  rewrite <- ES, <- EC, <- EO in H2.
  destruct (String.eqb key "DF394").
  { inversion H1. inversion H2. cbn. repeat split. apply agreeP_upd_same, A1. }
  destruct (String.eqb key "DF395").
  { inversion H1. inversion H2. cbn. repeat split. apply agreeP_upd_same, A1. }
  destruct (String.eqb key "DF396").
  { pose proof (agreeP_upd_same P nm _ _ (t_ncell T) (VInt (count_ones (bits_of (Z.to_nat w) v))) A1) as A2.
    rewrite <- (enc_maps_agree _ _ A2) in H2.
    apply obnd_some in H1. destruct H1 as [maps [M H1]]. rewrite M in H2. cbn [obnd] in H2.
    inversion H1. inversion H2. cbn. repeat split. exact A2. }
  destruct (String.eqb key "IDF038").
  { apply obnd_some in H1. destruct H1 as [c1 [HM1 H1]].
    apply obnd_some in H2. destruct H2 as [c2 [HM2 H2]].
    inversion H1. inversion H2. cbn. repeat split. eapply enc_harm_agree; eauto. }
  inversion H1. inversion H2. cbn. repeat split. exact A1.
Qed.
End Reads.

(* the value trace after one bit-carrying field *)
Lemma bits_field_trace key idxs fd s s' :
  is_label_ty (df_ty fd) = false ->
  enc_bits_field T ident rinex key idxs fd s = Some s' ->
  val_names (e_occ s') = val_names (e_occ s) ++ [occ_name (df_ty fd) key idxs].
Proof.
  intros L H. unfold enc_bits_field in H. destruct (e_vals s) as [|v rest]; [discriminate|].
  apply obnd_some in H. destruct H as [w [_ H]].
  destruct ((w <? 0) || (needs_sign_bit (df_ty fd) && (w <? 1))); [discriminate|].
  destruct (field_value (df_ty fd) (df_res fd) (bits_of (Z.to_nat w) v)) as [val| | |]; try discriminate.
  apply obnd_some in H. destruct H as [b1 [_ H]].
  assert (V1 : val_names (e_occ s ++ [(occ_name (df_ty fd) key idxs, OField (df_ty fd))])
               = val_names (e_occ s) ++ [occ_name (df_ty fd) key idxs]).
  { rewrite val_names_app. f_equal. unfold val_names, is_val_occ. cbn [filter snd]. rewrite L. reflexivity. }
  destruct (String.eqb key "DF394"); [inversion H; cbn [e_occ]; rewrite val_names_app, V1; apply app_nil_r|].
  destruct (String.eqb key "DF395"); [inversion H; cbn [e_occ]; rewrite val_names_app, V1; apply app_nil_r|].
  destruct (String.eqb key "DF396").
  { apply obnd_some in H. destruct H as [maps [_ H]]. inversion H; cbn [e_occ]; rewrite val_names_app, V1; apply app_nil_r. }
  destruct (String.eqb key "IDF038").
  { apply obnd_some in H. destruct H as [c [_ H]]. inversion H; cbn [e_occ]; rewrite val_names_app, V1; apply app_nil_r. }
  inversion H; cbn [e_occ]. exact V1.
Qed.

Lemma nth_error_snoc_here {A} (l:list A) x tl y : nth_error ((l ++ [x]) ++ tl) (List.length l) = Some y -> x = y.
Proof.
  rewrite <- app_assoc. rewrite nth_error_app2 by lia. rewrite Nat.sub_diag. cbn. congruence.
Qed.

(* the field that receives the two different raw values *)
Lemma bits_field_switch key idxs fd s1 s2 s1' s2' v1 v2 post :
  find_field T key = Some fd -> is_label_ty (df_ty fd) = false ->
  enc_bits_field T ident rinex key idxs fd s1 = Some s1' ->
  enc_bits_field T ident rinex key idxs fd s2 = Some s2' ->
  e_vals s1 = v1 :: post -> e_vals s2 = v2 :: post ->
  e_sat s1 = e_sat s2 -> e_cell s1 = e_cell s2 -> e_occ s1 = e_occ s2 -> e_attrs s1 = e_attrs s2 ->
  List.length (val_names (e_occ s1)) = j -> trace_in F s1' ->
  e_sat s1' = e_sat s2' /\ e_cell s1' = e_cell s2' /\ e_occ s1' = e_occ s2' /\
  agreeP True nm (e_attrs s1') (e_attrs s2') /\ e_vals s1' = e_vals s2'.
Proof.
  intros Ff L H1 H2 V1 V2 ES EC EO EA J [tl TI].
  (* this occurrence is the j-th: its attribute is nm *)
  assert (NM : occ_name (df_ty fd) key idxs = nm).
  { rewrite (bits_field_trace key idxs fd s1 s1' L H1) in TI. rewrite <- TI in HF. rewrite <- J in HF.
    apply nth_error_snoc_here in HF. exact HF. }
  (* hence the key is none of the special ones *)
  destruct reserved_facts as [_ [_ [N4 [N5 [N6 [_ N8]]]]]].
  pose proof (occ_name_prefix (df_ty fd) key idxs) as PK. rewrite NM in PK.
  assert (K4 : String.eqb key "DF394" = false).
  { destruct (String.eqb key "DF394") eqn:E; [|reflexivity]. apply String.eqb_eq in E. subst key. congruence. }
  assert (K5 : String.eqb key "DF395" = false).
  { destruct (String.eqb key "DF395") eqn:E; [|reflexivity]. apply String.eqb_eq in E. subst key. congruence. }
  assert (K6 : String.eqb key "DF396" = false).
  { destruct (String.eqb key "DF396") eqn:E; [|reflexivity]. apply String.eqb_eq in E. subst key. congruence. }
  assert (K8 : String.eqb key "IDF038" = false).
  { destruct (String.eqb key "IDF038") eqn:E; [|reflexivity]. apply String.eqb_eq in E. subst key. congruence. }
  unfold enc_bits_field in H1, H2. rewrite V1 in H1. rewrite V2 in H2.
  rewrite <- EA, <- ES, <- EC, <- EO in H2.
  destruct (enc_width T key fd (e_attrs s1)) as [w|]; [|discriminate]. cbn [obnd] in H1, H2.
  destruct ((w <? 0) || (needs_sign_bit (df_ty fd) && (w <? 1))); [discriminate|].
  destruct (field_value (df_ty fd) (df_res fd) (bits_of (Z.to_nat w) v1)) as [val1| | |]; try discriminate.
  destruct (field_value (df_ty fd) (df_res fd) (bits_of (Z.to_nat w) v2)) as [val2| | |]; try discriminate.
  apply obnd_some in H1. destruct H1 as [b1 [ST1 H1]].
  apply obnd_some in H2. destruct H2 as [b2 [ST2 H2]].
  destruct (enc_store_name _ _ _ _ _ _ ST1) as [x1 X1]. destruct (enc_store_name _ _ _ _ _ _ ST2) as [x2 X2].
  rewrite NM in X1, X2.
  rewrite K4, K5, K6, K8 in H1, H2. inversion H1. inversion H2. cbn. repeat split.
  subst b1 b2. apply agreeP_upd; [apply agreeP_refl|right; auto].
Qed.

Lemma label_field_same key idxs fd s1 s2 s1' s2' :
  is_label_ty (df_ty fd) = true ->
  enc_label_field key idxs fd s1 = Some s1' -> enc_label_field key idxs fd s2 = Some s2' ->
  Rel s1 s2 -> Rel s1' s2'.
Proof.
  intros L H1 H2 [ES EC EO A V].
  assert (VN : forall s, val_names (e_occ s ++ [(render_name key idxs, OField (df_ty fd))]) = val_names (e_occ s)).
  { intro s. rewrite val_names_app. unfold val_names at 2, is_val_occ. cbn [filter snd]. rewrite L. cbn. apply app_nil_r. }
  unfold enc_label_field in H1, H2.
  destruct (negb (df_bits fd =? 0) || special_name key); [discriminate|].
  destruct idxs as [|i r]; [discriminate|].
  rewrite <- ES, <- EC in H2.
  apply obnd_some in H1. destruct H1 as [label [LB H1]]. rewrite LB in H2. cbn [obnd] in H2.
  inversion H1. inversion H2. clear H1 H2.
  constructor; cbn [e_sat e_cell e_occ e_attrs e_vals].
  - reflexivity.
  - reflexivity.
  - now rewrite EO.
  - apply agreeP_upd_same, A.
  - destruct V as [V|[EA [pre [v1 [v2 [post [V1 [V2 J]]]]]]]]; [left; exact V|right].
    split; [now rewrite EA|]. exists pre, v1, v2, post. repeat split; try assumption.
    rewrite VN. exact J.
Qed.

Lemma field_step key idxs s1 s2 s1' s2' :
  enc_field T ident rinex key idxs s1 = Some s1' -> enc_field T ident rinex key idxs s2 = Some s2' ->
  Rel s1 s2 -> trace_in F s1' -> Rel s1' s2'.
Proof.
  unfold enc_field. destruct (find_field T key) as [fd|] eqn:Ff; [|discriminate].
  destruct (is_label_ty (df_ty fd)) eqn:L; intros H1 H2 R TI.
  - eapply label_field_same; eauto.
  - destruct R as [ES EC EO A V].
    pose proof (bits_field_trace key idxs fd s1 s1' L H1) as T1.
    destruct V as [V|[EA [pre [v1 [v2 [post [V1 [V2 J]]]]]]]].
    + (* after the change, or same values anyway *)
      destruct (e_vals s1) as [|v r1] eqn:V1; [unfold enc_bits_field in H1; rewrite V1 in H1; discriminate|].
      destruct (bits_field_same True key idxs fd s1 s2 s1' s2' v r1 r1 H1 H2 V1 (eq_sym V) ES EC EO A)
        as [ES' [EC' [EO' [A' [W1 W2]]]]].
      constructor; try assumption. left. congruence.
    + destruct pre as [|x pre].
      * (* this field receives the differing values *)
        cbn [app] in V1, V2. cbn [List.length] in J. rewrite Nat.add_0_r in J.
        destruct (bits_field_switch key idxs fd s1 s2 s1' s2' v1 v2 post Ff L H1 H2 V1 V2 ES EC EO EA J TI)
          as [ES' [EC' [EO' [A' W]]]].
        constructor; try assumption. left. exact W.
      * (* before the change: identical steps *)
        cbn [app] in V1, V2.
        destruct (bits_field_same False key idxs fd s1 s2 s1' s2' x _ _ H1 H2 V1 V2 ES EC EO
                    (agreeP_weaken False nm _ _ EA)) as [ES' [EC' [EO' [A' [W1 W2]]]]].
        apply agreeP_False_eq in A'.
        constructor; try assumption.
        { apply agreeP_weaken, A'. }
        right. split; [exact A'|]. exists pre, v1, v2, post. repeat split; try assumption.
        rewrite T1, app_length. cbn [List.length] in *. lia.
Qed.

(* ---- the walk ---- *)
Lemma erep_step b :
  (forall idxs s1 s2 s1' s2', enc_body T ident rinex b idxs s1 = Some s1' -> enc_body T ident rinex b idxs s2 = Some s2' ->
     Rel s1 s2 -> trace_in F s1' -> Rel s1' s2') ->
  forall n idxs i s1 s2 s1' s2',
    erep (enc_body T ident rinex b) idxs n i s1 = Some s1' -> erep (enc_body T ident rinex b) idxs n i s2 = Some s2' ->
    Rel s1 s2 -> trace_in F s1' -> Rel s1' s2'.
Proof.
  intro Hb. induction n as [|n IH]; intros idxs i s1 s2 s1' s2' E1 E2 R TI; cbn [erep] in E1, E2.
  - inversion E1. inversion E2. subst. exact R.
  - apply obnd_some in E1. destruct E1 as [m1 [A1 B1]].
    apply obnd_some in E2. destruct E2 as [m2 [A2 B2]].
    eapply IH; [exact B1|exact B2| |exact TI].
    eapply Hb; [exact A1|exact A2|exact R|].
    eapply trace_back; [eapply occ_grow_erep; exact B1|exact TI].
Qed.

Lemma body_reads_items l : body_reads nm (BItems l) = items_reads nm l.
Proof. reflexivity. Qed.

Lemma walk_step :
  (forall it lbl idxs s1 s2 s1' s2', item_reads nm it = false ->
     enc_item T ident rinex lbl it idxs s1 = Some s1' -> enc_item T ident rinex lbl it idxs s2 = Some s2' ->
     Rel s1 s2 -> trace_in F s1' -> Rel s1' s2') /\
  (forall b idxs s1 s2 s1' s2', body_reads nm b = false ->
     enc_body T ident rinex b idxs s1 = Some s1' -> enc_body T ident rinex b idxs s2 = Some s2' ->
     Rel s1 s2 -> trace_in F s1' -> Rel s1' s2').
Proof.
  apply item_body_ind.
  - intros k lbl idxs s1 s2 s1' s2' _ E1 E2 R TI. cbn [enc_item] in E1, E2. eapply field_step; eauto.
  - intros w lbl idxs s1 s2 s1' s2' _ E1. discriminate.
  - intros c b IHb lbl idxs s1 s2 s1' s2' NR E1 E2 R TI.
    cbn [item_reads] in NR. apply orb_false_iff in NR. destruct NR as [NC NB].
    rewrite enc_item_group in E1, E2.
    rewrite <- (count_of_agree True c idxs _ _ (r_agree _ _ R) NC) in E2.
    destruct (count_of c idxs (e_attrs s1)) as [n|]; [|discriminate]. cbn [obnd] in E1, E2.
    destruct (max_count <? n); [discriminate|].
    eapply erep_step; [|exact E1|exact E2|exact R|exact TI].
    intros idxs0 a1 a2 a1' a2'. apply IHb, NB.
  - intros k con b IHb lbl idxs s1 s2 s1' s2' NR E1 E2 R TI.
    cbn [item_reads] in NR. apply orb_false_iff in NR. destruct NR as [NK NB].
    apply String.eqb_neq in NK.
    rewrite enc_item_opt in E1, E2.
    rewrite <- (agreeP_assoc_other True nm _ _ k (r_agree _ _ R) NK) in E2.
    destruct (assoc k (e_attrs s1)) as [[z|f|str]|]; try discriminate.
    + destruct (z =? con); [eapply IHb; eauto|inversion E1; inversion E2; subst; exact R].
    + inversion E1; inversion E2; subst; exact R.
  - intros l IHl idxs s1 s2 s1' s2' NR E1 E2 R TI.
    rewrite body_reads_items in NR. rewrite enc_body_items in E1, E2.
    revert s1 s2 NR E1 E2 R. induction IHl as [|[lb it] r Hit Hr IHr]; intros s1 s2 NR E1 E2 R.
    + inversion E1. inversion E2. subst. exact R.
    + cbn [items_reads] in NR. apply orb_false_iff in NR. destruct NR as [NI NRr].
      rewrite enc_items_cons in E1, E2.
      apply obnd_some in E1. destruct E1 as [m1 [A1 B1]].
      apply obnd_some in E2. destruct E2 as [m2 [A2 B2]].
      cbn [snd] in Hit.
      eapply IHr; [exact NRr|exact B1|exact B2|].
      eapply Hit; [exact NI|exact A1|exact A2|exact R|].
      eapply trace_back; [eapply occ_grow_items; exact B1|exact TI].
  - intros w idxs s1 s2 s1' s2' _ E1. discriminate.
Qed.
End Change.

(* ================= the theorems ================= *)
Theorem single_field_change : forall T ident rinex b pre v1 v2 post s1 s2 nm,
  lay_out_state T ident rinex b (pre ++ v1 :: post) = Some s1 ->
  lay_out_state T ident rinex b (pre ++ v2 :: post) = Some s2 ->
  nth_error (val_names (e_occ s1)) (List.length pre) = Some nm ->     (* the field fed by position |pre| writes nm *)
  plain_attr T b nm = true ->
  agree_except nm (e_attrs s1) (e_attrs s2) /\ e_occ s1 = e_occ s2 /\
  e_sat s1 = e_sat s2 /\ e_cell s1 = e_cell s2.
Proof.
  intros T ident rinex b pre v1 v2 post s1 s2 nm E1 E2 HN PL.
  unfold plain_attr in PL. apply negb_true_iff, orb_false_iff in PL. destruct PL as [HR NB].
  pose proof (proj2 (walk_step T ident rinex nm (List.length pre) (val_names (e_occ s1)) HN HR)
                b [] (est0 (pre ++ v1 :: post)) (est0 (pre ++ v2 :: post)) s1 s2 NB E1 E2) as W.
  destruct W as [ES EC EO A _].
  - constructor; cbn [est0 e_sat e_cell e_occ e_attrs e_vals]; try reflexivity.
    + apply agreeP_refl.
    + right. split; [reflexivity|]. exists pre, v1, v2, post. repeat split.
  - exists []. apply app_nil_r.
  - repeat split; assumption.
Qed.

(* the same, observed through the parser *)
Theorem single_field_change_parsed : forall T ident b lbl pre v1 v2 post s1 s2 nm pad1 pad2 x1 x2,
  get_dict T ident = Some b ->
  lay_out_state T ident (negb (lbl =? 2)) b (pre ++ v1 :: post) = Some s1 ->
  lay_out_state T ident (negb (lbl =? 2)) b (pre ++ v2 :: post) = Some s2 ->
  nth_error (val_names (e_occ s1)) (List.length pre) = Some nm ->
  plain_attr T b nm = true ->
  (List.length (e_bits s1 ++ pad1) mod 8 = 0)%nat -> (List.length (e_bits s2 ++ pad2) mod 8 = 0)%nat ->
  let p1 := pack (e_bits s1 ++ pad1) ++ x1 in
  let p2 := pack (e_bits s2 ++ pad2) ++ x2 in
  identity p1 = Ok ident -> too_short p1 = false -> identity p2 = Ok ident -> too_short p2 = false ->
  exists o1 o2, construct T (Some p1) lbl = Ok o1 /\ construct T (Some p2) lbl = Ok o2 /\
                agree_except nm (o_attrs o1) (o_attrs o2).
Proof.
  intros T ident b lbl pre v1 v2 post s1 s2 nm pad1 pad2 x1 x2 D E1 E2 HN PL M1 M2 p1 p2 I1 G1 I2 G2.
  destruct (single_field_change T ident _ b pre v1 v2 post s1 s2 nm E1 E2 HN PL) as [A _].
  assert (L1 : lay_out T ident (negb (lbl =? 2)) b (pre ++ v1 :: post) = Some (e_bits s1, e_attrs s1, e_vals s1))
    by (unfold lay_out; rewrite E1; reflexivity).
  assert (L2 : lay_out T ident (negb (lbl =? 2)) b (pre ++ v2 :: post) = Some (e_bits s2, e_attrs s2, e_vals s2))
    by (unfold lay_out; rewrite E2; reflexivity).
  destruct (decode_roundtrip T ident b lbl _ _ _ _ pad1 x1 D L1 M1 I1 G1) as [o1 [C1 A1]].
  destruct (decode_roundtrip T ident b lbl _ _ _ _ pad2 x2 D L2 M2 I2 G2) as [o2 [C2 A2]].
  exists o1, o2. repeat split; try assumption. rewrite A1, A2. exact A.
Qed.
