(* C03: "one public attribute per field occurrence".  The encoder's write trace e_occ lists every attribute
   write in order; the attribute names are exactly the trace names with repetitions dropped (Python dict),
   so under name distinctness there is one attribute per occurrence. *)
From Coq Require Import NArith ZArith List String Bool Lia.
From PyRtcm Require Import Base.Bytes Base.Dec Model.Types Model.Message Spec.FieldGrammar Spec.MsmMasks Spec.Encoder.
From PyRtcm Require Import Proofs.DecodeWalk Proofs.RoundtripBase Proofs.DecodeRoundtrip.
Import ListNotations.
Open Scope list_scope.

(* ================= first occurrences, in order ================= *)
Definition mem (k:string) (ns:list string) : bool := existsb (String.eqb k) ns.
Definition add_name (ns:list string) (k:string) : list string := if mem k ns then ns else ns ++ [k].
Definition dedup (l:list string) : list string := fold_left add_name l [].

Lemma dedup_snoc l k : dedup (l ++ [k]) = add_name (dedup l) k.
Proof. unfold dedup. rewrite fold_left_app. reflexivity. Qed.

Lemma mem_In k ns : mem k ns = true <-> In k ns.
Proof.
  unfold mem. rewrite existsb_exists. split.
  - intros [x [I E]]. apply String.eqb_eq in E. now subst.
  - intro I. exists k. split; [exact I|apply String.eqb_refl].
Qed.

Lemma In_add_name ns k x : In x (add_name ns k) <-> In x ns \/ x = k.
Proof.
  unfold add_name. destruct (mem k ns) eqn:M.
  - apply mem_In in M. split; [auto|]. intros [H | ->]; assumption.
  - rewrite in_app_iff. cbn. intuition.
Qed.

Lemma In_dedup l x : In x (dedup l) <-> In x l.
Proof.
  induction l as [|k l IH] using rev_ind; [reflexivity|].
  rewrite dedup_snoc, In_add_name, IH, in_app_iff. cbn. intuition.
Qed.

Lemma NoDup_dedup l : NoDup (dedup l).
Proof.
  induction l as [|k l IH] using rev_ind; [constructor|].
  rewrite dedup_snoc. unfold add_name. destruct (mem k (dedup l)) eqn:M; [exact IH|].
  assert (NI : ~ In k (dedup l)) by (intro H; apply mem_In in H; congruence).
  clear M. induction IH as [|y ys Hy Hys IHys]; cbn.
  - constructor; [intros []|constructor].
  - constructor.
    + rewrite in_app_iff. cbn. intros [H|[H|[]]]; [contradiction|]. subst. apply NI. now left.
    + apply IHys. intro H. apply NI. now right.
Qed.

Lemma NoDup_snoc_inv {A} (l:list A) k : NoDup (l ++ [k]) -> NoDup l /\ ~ In k l.
Proof. intro H. pose proof (NoDup_remove l [] k H) as [X Y]. rewrite app_nil_r in X, Y. auto. Qed.

Lemma dedup_NoDup l : NoDup l -> dedup l = l.
Proof.
  induction l as [|k l IH] using rev_ind; [reflexivity|]. intro ND.
  rewrite dedup_snoc.
  destruct (NoDup_snoc_inv l k ND) as [NDl NI].
  rewrite (IH NDl). unfold add_name.
  destruct (mem k l) eqn:M; [apply mem_In in M; contradiction|reflexivity].
Qed.

(* keys after a dict write *)
Lemma keys_upd k (v:value) a : map fst (upd k v a) = add_name (map fst a) k.
Proof.
  unfold add_name, mem. induction a as [|[k' v'] r IH]; [reflexivity|].
  cbn [upd map fst existsb]. rewrite (String.eqb_sym k k').
  destruct (String.eqb k' k) eqn:E; [reflexivity|].
  cbn [map fst orb]. rewrite IH. destruct (existsb (String.eqb k) (map fst r)); reflexivity.
Qed.

(* ================= attribute names = trace names, repetitions dropped ================= *)
Definition names_inv (s:est) : Prop := map fst (e_attrs s) = dedup (map fst (e_occ s)).

Lemma names_step a occ k (v:value) (kind:okind) :
  map fst a = dedup (map fst occ) ->
  map fst (upd k v a) = dedup (map fst (occ ++ [(k, kind)])).
Proof. intro H. rewrite keys_upd, map_app. cbn [map fst]. rewrite dedup_snoc, H. reflexivity. Qed.

Lemma enc_store_name ty key idxs v a a1 :
  enc_store ty key idxs v a = Some a1 -> exists v', a1 = upd (occ_name ty key idxs) v' a.
Proof.
  unfold enc_store, occ_name. destruct ty; try (intro H; inversion H; solve [eauto]).
  destruct (assoc key a) as [[z|f|old]|]; try discriminate.
  - destruct v as [z|f|new]; try discriminate. intro H. inversion H. eauto.
  - intro H. inversion H. eauto.
Qed.

Lemma enc_harm_names T idxs a a2 :
  enc_harm T idxs a = Some a2 -> exists x y, a2 = upd (t_nharms T) y (upd (t_nharmc T) x a).
Proof.
  unfold enc_harm. destruct idxs as [|i r]; [discriminate|]. destruct (Z.ltb i 0); [discriminate|].
  intro H. apply obnd_some in H. destruct H as [n0 [_ H]]. apply obnd_some in H. destruct H as [m0 [_ H]].
  match type of H with (if ?c then _ else _) = _ => destruct c; [discriminate|] end.
  inversion H. eauto.
Qed.

Lemma names_inv_field T ident rinex key idxs s s' :
  enc_field T ident rinex key idxs s = Some s' -> names_inv s -> names_inv s'.
Proof.
  unfold enc_field, names_inv. destruct (find_field T key) as [fd|]; [|discriminate].
  destruct (is_label_ty (df_ty fd)); intros H I.
  - apply enc_label_field_inv in H. destruct H as [_ [_ [_ [_ [O [label A]]]]]].
    rewrite A, O. apply names_step, I.
  - unfold enc_bits_field in H. destruct (e_vals s) as [|v rest]; [discriminate|].
    apply obnd_some in H. destruct H as [w [_ H]].
    match type of H with (if ?c then _ else _) = _ => destruct c; [discriminate|] end.
    destruct (field_value (df_ty fd) (df_res fd) (bits_of (Z.to_nat w) v)) as [val| | |]; try discriminate.
    apply obnd_some in H. destruct H as [a1 [ST H]].
    apply enc_store_name in ST. destruct ST as [v' ->].
    pose proof (names_step _ _ (occ_name (df_ty fd) key idxs) v' (OField (df_ty fd)) I) as I1.
    destruct (String.eqb key "DF394"); [inversion H; cbn [e_attrs e_occ]; apply names_step, I1|].
    destruct (String.eqb key "DF395"); [inversion H; cbn [e_attrs e_occ]; apply names_step, I1|].
    destruct (String.eqb key "DF396").
    { apply obnd_some in H. destruct H as [maps [_ H]]. inversion H; cbn [e_attrs e_occ]; apply names_step, I1. }
    destruct (String.eqb key "IDF038").
    { apply obnd_some in H. destruct H as [a2 [HM H]]. apply enc_harm_names in HM. destruct HM as [x [y ->]].
      inversion H; cbn [e_attrs e_occ].
      change [(t_nharmc T, OHarm); (t_nharms T, OHarm)] with ([(t_nharmc T, OHarm)] ++ [(t_nharms T, OHarm)]).
      rewrite app_assoc. apply names_step. apply names_step, I1. }
    inversion H; cbn [e_attrs e_occ]. exact I1.
Qed.

Theorem attr_names_are_trace : forall T ident rinex b vals s,
  lay_out_state T ident rinex b vals = Some s ->
  map fst (e_attrs s) = dedup (map fst (e_occ s)).
Proof.
  intros T ident rinex b vals s E.
  refine (ebody_pres T ident rinex (fun a b => names_inv a -> names_inv b) _ _ _ b [] (est0 vals) s E _).
  - auto.
  - auto.
  - intros key idxs s0 s0'. apply names_inv_field.
  - reflexivity.
Qed.

(* ================= counting ================= *)
Definition is_str_occ (e:string*okind) : bool := match snd e with OField TSTR => true | _ => false end.
Definition is_field_occ (e:string*okind) : bool := match snd e with OField TSTR => false | OField _ => true | _ => false end.
Definition is_count_occ (e:string*okind) : bool := match snd e with OCount => true | _ => false end.
Definition is_harm_occ (e:string*okind) : bool := match snd e with OHarm => true | _ => false end.
(* writes that must each produce their own attribute *)
Definition is_single_occ (e:string*okind) : bool := is_field_occ e || is_count_occ e.

Definition occ_wf (occ:list (string*okind)) : Prop :=
  NoDup (map fst (filter is_single_occ occ)) /\
  (forall e e', In e occ -> In e' occ -> is_single_occ e = true -> is_str_occ e' = true -> fst e <> fst e') /\
  (forall e, In e occ -> is_public (fst e) = negb (is_harm_occ e)).

Lemma occ_wf_prefix occ e : occ_wf (occ ++ [e]) -> occ_wf occ.
Proof.
  intros [ND [SEP PUB]]. split; [|split].
  - rewrite filter_app, map_app in ND. destruct (map fst (filter is_single_occ [e])) as [|x xs] eqn:X.
    + now rewrite app_nil_r in ND.
    + cbn [filter] in X. destruct (is_single_occ e); [|discriminate]. cbn in X. inversion X. subst x xs.
      exact (proj1 (NoDup_snoc_inv _ _ ND)).
  - intros a b Ia Ib. apply SEP; apply in_app_iff; now left.
  - intros a Ia. apply PUB. apply in_app_iff. now left.
Qed.

Lemma filter_public_add ns k :
  filter is_public (add_name ns k) =
  if mem k ns then filter is_public ns else filter is_public ns ++ (if is_public k then [k] else []).
Proof.
  unfold add_name. destruct (mem k ns); [reflexivity|]. rewrite filter_app. cbn [filter].
  destruct (is_public k); reflexivity.
Qed.

Lemma kind_cases e :
  (is_field_occ e = true /\ is_str_occ e = false /\ is_count_occ e = false /\ is_harm_occ e = false) \/
  (is_field_occ e = false /\ is_str_occ e = true /\ is_count_occ e = false /\ is_harm_occ e = false) \/
  (is_field_occ e = false /\ is_str_occ e = false /\ is_count_occ e = true /\ is_harm_occ e = false) \/
  (is_field_occ e = false /\ is_str_occ e = false /\ is_count_occ e = false /\ is_harm_occ e = true).
Proof.
  destruct e as [k [ty| |]]; unfold is_field_occ, is_str_occ, is_count_occ, is_harm_occ; cbn [snd].
  - destruct ty; auto 10.
  - auto 10.
  - auto 10.
Qed.

Lemma count_public : forall occ, occ_wf occ ->
  List.length (filter is_public (dedup (map fst occ))) =
  (List.length (filter is_field_occ occ) + List.length (dedup (map fst (filter is_str_occ occ)))
   + List.length (filter is_count_occ occ))%nat.
Proof.
  induction occ as [|e occ IH] using rev_ind; [reflexivity|]. intro WF.
  pose proof (occ_wf_prefix occ e WF) as WF0. specialize (IH WF0).
  destruct WF as [ND [SEP PUB]].
  rewrite map_app. cbn [map]. rewrite dedup_snoc, filter_public_add.
  rewrite !filter_app, !app_length. cbn [filter].
  assert (Pe : is_public (fst e) = negb (is_harm_occ e)) by (apply PUB, in_app_iff; right; now left).
  assert (Ie : In e (occ ++ [e])) by (apply in_app_iff; right; now left).
  destruct (kind_cases e) as [[K1 [K2 [K3 K4]]]|[[K1 [K2 [K3 K4]]]|[[K1 [K2 [K3 K4]]]|[K1 [K2 [K3 K4]]]]]];
    rewrite K1, K2, K3; rewrite K4 in Pe; cbn [negb] in Pe; rewrite Pe.
  - (* a non-STR field occurrence: its name is new *)
    assert (NM : mem (fst e) (dedup (map fst occ)) = false).
    { destruct (mem (fst e) (dedup (map fst occ))) eqn:M; [|reflexivity]. exfalso.
      apply mem_In, In_dedup, in_map_iff in M. destruct M as [e' [Ee Ie']].
      assert (S1 : is_single_occ e = true) by (unfold is_single_occ; now rewrite K1).
      destruct (is_str_occ e') eqn:S'.
      - apply (SEP e e' Ie (proj2 (in_app_iff _ _ _) (or_introl Ie')) S1 S'). now rewrite Ee.
      - destruct (is_single_occ e') eqn:S2.
        + rewrite filter_app, map_app in ND. cbn [filter] in ND. rewrite S1 in ND. cbn [map] in ND.
          apply NoDup_snoc_inv in ND. apply (proj2 ND).
          apply in_map_iff. exists e'. split; [exact Ee|]. apply filter_In. now split.
        + (* e' is a harmonic write: private, but e is public *)
          pose proof (PUB e' (proj2 (in_app_iff _ _ _) (or_introl Ie'))) as P'.
          rewrite Ee, Pe in P'.
          destruct (kind_cases e') as [[A _]|[[_ [A _]]|[[_ [_ [A _]]]|[_ [_ [_ A]]]]]].
          * unfold is_single_occ in S2. rewrite A in S2. discriminate.
          * congruence.
          * unfold is_single_occ in S2. rewrite A, orb_true_r in S2. discriminate.
          * rewrite A in P'. discriminate. }
    rewrite NM, app_length. cbn [List.length app]. rewrite app_nil_r, IH. lia.
  - (* a text code unit: new attribute iff its key is a new text key *)
    rewrite map_app. cbn [map]. rewrite dedup_snoc. unfold add_name.
    assert (EQ : mem (fst e) (dedup (map fst occ)) = mem (fst e) (dedup (map fst (filter is_str_occ occ)))).
    { destruct (mem (fst e) (dedup (map fst (filter is_str_occ occ)))) eqn:M2.
      - apply mem_In. apply mem_In, In_dedup, in_map_iff in M2. destruct M2 as [e' [Ee Ie']].
        apply filter_In in Ie'. destruct Ie' as [Ie' _]. apply In_dedup, in_map_iff. eauto.
      - destruct (mem (fst e) (dedup (map fst occ))) eqn:M; [|reflexivity]. exfalso.
        apply mem_In, In_dedup, in_map_iff in M. destruct M as [e' [Ee Ie']].
        assert (Ie'' : In e' (occ ++ [e])) by (apply in_app_iff; now left).
        destruct (kind_cases e') as [[A _]|[[_ [A _]]|[[_ [_ [A _]]]|[_ [_ [_ A]]]]]].
        + apply (SEP e' e Ie'' Ie); [unfold is_single_occ; now rewrite A|exact K2|exact Ee].
        + assert (X : mem (fst e) (dedup (map fst (filter is_str_occ occ))) = true).
          { apply mem_In, In_dedup, in_map_iff. exists e'. split; [exact Ee|]. apply filter_In. now split. }
          congruence.
        + apply (SEP e' e Ie'' Ie); [unfold is_single_occ; now rewrite A, orb_true_r|exact K2|exact Ee].
        + pose proof (PUB e' Ie'') as P'. rewrite Ee, Pe, A in P'. discriminate. }
    rewrite EQ. destruct (mem (fst e) (dedup (map fst (filter is_str_occ occ)))).
    + cbn [List.length]. rewrite IH. lia.
    + rewrite !app_length. cbn [List.length]. rewrite IH. lia.
  - (* an MSM count *)
    assert (NM : mem (fst e) (dedup (map fst occ)) = false).
    { destruct (mem (fst e) (dedup (map fst occ))) eqn:M; [|reflexivity]. exfalso.
      apply mem_In, In_dedup, in_map_iff in M. destruct M as [e' [Ee Ie']].
      assert (S1 : is_single_occ e = true) by (unfold is_single_occ; now rewrite K3, orb_true_r).
      destruct (is_str_occ e') eqn:S'.
      - apply (SEP e e' Ie (proj2 (in_app_iff _ _ _) (or_introl Ie')) S1 S'). now rewrite Ee.
      - destruct (is_single_occ e') eqn:S2.
        + rewrite filter_app, map_app in ND. cbn [filter] in ND. rewrite S1 in ND. cbn [map] in ND.
          apply NoDup_snoc_inv in ND. apply (proj2 ND).
          apply in_map_iff. exists e'. split; [exact Ee|]. apply filter_In. now split.
        + pose proof (PUB e' (proj2 (in_app_iff _ _ _) (or_introl Ie'))) as P'.
          rewrite Ee, Pe in P'.
          destruct (kind_cases e') as [[A _]|[[_ [A _]]|[[_ [_ [A _]]]|[_ [_ [_ A]]]]]].
          * unfold is_single_occ in S2. rewrite A in S2. discriminate.
          * congruence.
          * unfold is_single_occ in S2. rewrite A, orb_true_r in S2. discriminate.
          * rewrite A in P'. discriminate. }
    rewrite NM, app_length. cbn [List.length app]. rewrite app_nil_r, IH. lia.
  - (* a private harmonic count: never public *)
    destruct (mem (fst e) (dedup (map fst occ))); [|rewrite app_nil_r]; cbn [List.length]; rewrite ?app_nil_r, IH; lia.
Qed.

Lemma public_names a : map fst (public a) = filter is_public (map fst a).
Proof.
  unfold public. induction a as [|[k v] r IH]; [reflexivity|]. cbn [filter map fst].
  destruct (is_public k); cbn [map fst]; now rewrite IH.
Qed.

(* one public attribute per non-text field occurrence, one per distinct text key, one per MSM count *)
Theorem one_attr_per_occurrence : forall T ident rinex b vals s,
  lay_out_state T ident rinex b vals = Some s ->
  occ_wf (e_occ s) ->
  List.length (public (e_attrs s)) =
  (List.length (filter is_field_occ (e_occ s))
   + List.length (dedup (map fst (filter is_str_occ (e_occ s))))
   + List.length (filter is_count_occ (e_occ s)))%nat.
Proof.
  intros T ident rinex b vals s E WF.
  rewrite <- (map_length fst (public (e_attrs s))), public_names.
  rewrite (attr_names_are_trace T ident rinex b vals s E).
  apply count_public, WF.
Qed.

(* with all written names distinct, the attribute names ARE the trace, in order *)
Theorem attrs_in_trace_order : forall T ident rinex b vals s,
  lay_out_state T ident rinex b vals = Some s ->
  NoDup (map fst (e_occ s)) -> map fst (e_attrs s) = map fst (e_occ s).
Proof.
  intros T ident rinex b vals s E ND.
  rewrite (attr_names_are_trace T ident rinex b vals s E). apply dedup_NoDup, ND.
Qed.

(* ================= a decidable form of the distinctness premise ================= *)
Definition occ_wf_b (occ:list (string*okind)) : bool :=
  let singles := map fst (filter is_single_occ occ) in
  (if list_eq_dec string_dec (dedup singles) singles then true else false) &&
  forallb (fun e => forallb (fun e' => negb (is_single_occ e && is_str_occ e' && String.eqb (fst e) (fst e'))) occ) occ &&
  forallb (fun e => Bool.eqb (is_public (fst e)) (negb (is_harm_occ e))) occ.

Lemma occ_wf_b_sound occ : occ_wf_b occ = true -> occ_wf occ.
Proof.
  unfold occ_wf_b. intro H. apply andb_true_iff in H. destruct H as [H H3].
  apply andb_true_iff in H. destruct H as [H1 H2]. split; [|split].
  - destruct (list_eq_dec string_dec (dedup (map fst (filter is_single_occ occ))) (map fst (filter is_single_occ occ))) as [E|]; [|discriminate].
    rewrite <- E. apply NoDup_dedup.
  - intros e e' Ie Ie' S1 S2 E.
    rewrite forallb_forall in H2. specialize (H2 e Ie). rewrite forallb_forall in H2. specialize (H2 e' Ie').
    rewrite S1, S2, E, String.eqb_refl in H2. discriminate.
  - intros e Ie. rewrite forallb_forall in H3. specialize (H3 e Ie). apply Bool.eqb_prop in H3. exact H3.
Qed.
