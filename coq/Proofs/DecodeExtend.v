(* Level 3 (C06, C03): the walk stays inside the payload, bytes after the last field change nothing,
   truncated messages are rejected. *)
From Coq Require Import NArith ZArith List String Bool Lia.
From PyRtcm Require Import Base.Bytes Base.Dec Model.Types Model.Message Spec.FieldGrammar.
From PyRtcm Require Import Proofs.DecodeBits Proofs.DecodeWalk.
Import ListNotations.
Open Scope list_scope.
Open Scope Z_scope.

Definition omap {A B} (f:A -> B) (r:outcome A) : outcome B := do a <- r; Ok (f a).

Lemma obind_omap {A B C} (f:A->B) (r:outcome A) (g:B -> outcome C) :
  obind (omap f r) g = obind r (fun a => g (f a)).
Proof. destruct r; reflexivity. Qed.

(* ================= what a field step never touches ================= *)
Definition same_frame (o o1:obj) : Prop :=
  o_payload o1 = o_payload o /\ o_payloadi o1 = o_payloadi o /\
  o_immutable o1 = o_immutable o /\ o_labelmsm o1 = o_labelmsm o /\ o_unknown o1 = o_unknown o.

Lemma same_frame_refl o : same_frame o o.
Proof. repeat split. Qed.

Lemma same_frame_trans a b c : same_frame a b -> same_frame b c -> same_frame a c.
Proof. unfold same_frame. intuition congruence. Qed.

Lemma setattr_frame o k v o1 : setattr o k v = Ok o1 -> same_frame o o1.
Proof.
  unfold setattr. destruct (o_immutable o); [discriminate|]. intro E. inversion E. repeat split.
Qed.

Lemma obind_ok_inv {A B} (r:outcome A) (f:A -> outcome B) b :
  obind r f = Ok b -> exists a, r = Ok a /\ f a = Ok b.
Proof. destruct r; cbn; try discriminate. eauto. Qed.

Lemma ok_inj {A} (a b:A) : Ok a = Ok b -> a = b.
Proof. intro E. injection E. auto. Qed.

Lemma with_maps_frame o sm cm : same_frame o (with_maps o sm cm).
Proof. repeat split. Qed.

Lemma getsatcellmaps_frame T ident o o1 : getsatcellmaps T ident o = Ok o1 -> same_frame o o1.
Proof.
  unfold getsatcellmaps. destruct (assoc (substring 0 3 ident) (t_prnsig T)) as [[prnmap sigmap]|]; [|discriminate].
  intro E.
  apply obind_ok_inv in E. destruct E as [d4 [_ E]].
  apply obind_ok_inv in E. destruct E as [d5 [_ E]].
  apply obind_ok_inv in E. destruct E as [d6 [_ E]].
  apply ok_inj in E. rewrite <- E. apply with_maps_frame.
Qed.

Lemma store_value_frame ty anam idx v o o1 : store_value ty anam idx v o = Ok o1 -> same_frame o o1.
Proof.
  unfold store_value. intro E.
  destruct ty; try (eapply setattr_frame; exact E).
  destruct (assoc anam (o_attrs o)) as [old|].
  - destruct old as [z|f|old]; try discriminate. destruct v as [z|f|new]; try discriminate.
    eapply setattr_frame; exact E.
  - eapply setattr_frame; exact E.
Qed.

Lemma post_mask_frame T ident anam ob o o1 : post_mask T ident anam ob o = Ok o1 -> same_frame o o1.
Proof.
  unfold post_mask. destruct (is_mask_name anam).
  - destruct ob as [b|]; [|discriminate].
    destruct (String.eqb anam "DF394"); [apply setattr_frame|].
    destruct (String.eqb anam "DF395"); [apply setattr_frame|].
    intro E. apply obind_ok_inv in E. destruct E as [o' [E1 E2]].
    eapply same_frame_trans; [eapply setattr_frame; exact E1|eapply getsatcellmaps_frame; exact E2].
  - intro E. inversion E. apply same_frame_refl.
Qed.

Lemma harmonic_counts_frame T idx o o1 : harmonic_counts T idx o = Ok o1 -> same_frame o o1.
Proof.
  unfold harmonic_counts. intro E.
  apply obind_ok_inv in E. destruct E as [i [_ E]].
  destruct (i <? 0); [discriminate|].
  apply obind_ok_inv in E. destruct E as [n0 [_ E]].
  apply obind_ok_inv in E. destruct E as [m0 [_ E]].
  destruct ((2 ^ 24 <? Z.abs (n0 + 1)) || (2 ^ 24 <? Z.abs (m0 + 1))); [discriminate|].
  apply obind_ok_inv in E. destruct E as [o' [E1 E2]].
  eapply same_frame_trans; eapply setattr_frame; eassumption.
Qed.

Lemma post_harm_frame T anam idx o o1 : post_harm T anam idx o = Ok o1 -> same_frame o o1.
Proof.
  unfold post_harm. destruct (String.eqb anam "IDF038"); [apply harmonic_counts_frame|].
  intro E. inversion E. apply same_frame_refl.
Qed.

(* inversion of the staged field step *)
Lemma field_stages_inv T ident anam idx fd o off s1 :
  field_stages T ident anam idx fd o off = Ok s1 ->
  exists asiz vb o1 o2 o3,
    field_width T anam fd o = Ok asiz /\
    read_value fd idx o off asiz = Ok vb /\
    store_value (df_ty fd) anam idx (fst vb) o = Ok o1 /\
    post_mask T ident anam (snd vb) o1 = Ok o2 /\
    post_harm T anam idx o2 = Ok o3 /\
    s1 = (o3, off + asiz).
Proof.
  unfold field_stages. intro E.
  apply obind_ok_inv in E. destruct E as [asiz [E1 E]].
  apply obind_ok_inv in E. destruct E as [vb [E2 E]].
  apply obind_ok_inv in E. destruct E as [o1 [E3 E]].
  apply obind_ok_inv in E. destruct E as [o2 [E4 E]].
  apply obind_ok_inv in E. destruct E as [o3 [E5 E]].
  inversion E. exists asiz, vb, o1, o2, o3. repeat split; assumption.
Qed.

Lemma set_single_inv T ident anam idx o off s1 :
  set_single T ident anam idx (o, off) = Ok s1 ->
  exists fd, find_field T anam = Some fd /\ field_stages T ident anam idx fd o off = Ok s1.
Proof.
  rewrite set_single_stages. destruct (find_field T anam) as [fd|]; [|discriminate]. eauto.
Qed.

Lemma set_single_frame T ident anam idx o off o1 off1 :
  set_single T ident anam idx (o, off) = Ok (o1, off1) -> same_frame o o1.
Proof.
  intro E. apply set_single_inv in E. destruct E as [fd [_ E]].
  apply field_stages_inv in E.
  destruct E as [asiz [vb [oa [ob [oc [_ [_ [E3 [E4 [E5 E6]]]]]]]]]].
  inversion E6. subst oc.
  eapply same_frame_trans; [eapply store_value_frame; exact E3|].
  eapply same_frame_trans; [eapply post_mask_frame; exact E4|].
  eapply post_harm_frame; exact E5.
Qed.

(* ================= well-formed tables: label-typed fields occupy no bits ================= *)
(* PRN / CELLPRN / CELLSIG are derived from the masks, not read from the payload; in pyrtcm's table
   their width is 0.  The offset arithmetic `offset + asiz` is applied to them all the same, so the
   bound on the final offset needs this fact about the table (checkable by computation). *)
Definition label_zero_width (T:tables) : bool :=
  forallb (fun fd => if is_label_ty (df_ty fd)
                     then (df_bits fd =? 0) && negb (String.eqb (df_key fd) "DF396")
                     else true) (t_fields T).

Lemma find_field_some T anam fd : find_field T anam = Some fd -> In fd (t_fields T) /\ df_key fd = anam.
Proof.
  unfold find_field. intro E. apply find_some in E. destruct E as [I K].
  split; [exact I|]. apply String.eqb_eq, K.
Qed.

Lemma label_zero_width_spec T anam fd :
  label_zero_width T = true -> find_field T anam = Some fd -> is_label_ty (df_ty fd) = true ->
  forall o, field_width T anam fd o = Ok 0.
Proof.
  intros W F L o. apply find_field_some in F. destruct F as [I K].
  unfold label_zero_width in W. rewrite forallb_forall in W. specialize (W fd I).
  rewrite L in W. apply andb_true_iff in W. destruct W as [W1 W2].
  apply Z.eqb_eq in W1. apply negb_true_iff in W2. rewrite K in W2.
  unfold field_width. rewrite W2, W1. reflexivity.
Qed.

(* a bit-carrying field that is read successfully lies inside the payload *)
Lemma read_value_bounds fd idx o off asiz vb :
  is_label_ty (df_ty fd) = false -> read_value fd idx o off asiz = Ok vb ->
  0 <= asiz /\ off + asiz <= nbits (o_payload o).
Proof.
  intros L E. unfold read_value in E. unfold nbits.
  destruct (df_ty fd); cbn in L; try discriminate;
    (apply obind_ok_inv in E; destruct E as [b [E _]]; apply get_bits_ok_bounds in E; exact E).
Qed.

Lemma set_single_offset T ident anam idx o off o1 off1 :
  label_zero_width T = true ->
  set_single T ident anam idx (o, off) = Ok (o1, off1) ->
  off <= off1 /\ (off <= nbits (o_payload o) -> off1 <= nbits (o_payload o)).
Proof.
  intros W E. apply set_single_inv in E. destruct E as [fd [F E]].
  apply field_stages_inv in E.
  destruct E as [asiz [vb [oa [ob [oc [E1 [E2 [_ [_ [_ E6]]]]]]]]]].
  inversion E6. subst oc off1.
  destruct (is_label_ty (df_ty fd)) eqn:L.
  - rewrite (label_zero_width_spec T anam fd W F L) in E1. inversion E1. lia.
  - destruct (read_value_bounds fd idx o off asiz vb L E2). lia.
Qed.

(* ---------- unary invariants over items and bodies ---------- *)
Section Inv2.
Variable T : tables.
Variable ident : string.
Variable Inv : st -> Prop.
Hypothesis H_single : forall anam idx s s1, Inv s -> set_single T ident anam idx s = Ok s1 -> Inv s1.

Let Rinv (a b:st) : Prop := Inv a /\ a = b.

Lemma Rinv_single anam idx s s' : Rinv s s' ->
  osim Rinv false (set_single T ident anam idx s) (set_single T ident anam idx s').
Proof.
  intros [I0 <-]. destruct (set_single T ident anam idx s) as [s2| | |] eqn:E2; cbn; try discriminate.
  exists s2. split; [reflexivity|]. split; [eapply H_single; eauto|reflexivity].
Qed.

Lemma Rinv_getattr k s s' : Rinv s s' -> osim ctl_rel false (getattr (fst s) k) (getattr (fst s') k).
Proof.
  intros [_ <-]. destruct (getattr (fst s) k) as [v| | |]; cbn; try discriminate.
  exists v. split; [reflexivity|apply ctl_rel_refl].
Qed.

Lemma item_inv lbl it idx s s1 : Inv s -> dec_item T ident lbl it idx s = Ok s1 -> Inv s1.
Proof.
  intros I E.
  pose proof (sim_item T ident Rinv false Rinv_single Rinv_getattr it lbl idx s s (conj I eq_refl)) as S.
  rewrite E in S. destruct S as [s2 [_ [I1 _]]]. exact I1.
Qed.

Lemma body_inv b idx s s1 : Inv s -> dec_body T ident b idx s = Ok s1 -> Inv s1.
Proof.
  intros I E.
  pose proof (sim_body T ident Rinv false Rinv_single Rinv_getattr b idx s s (conj I eq_refl)) as S.
  rewrite E in S. destruct S as [s2 [_ [I1 _]]]. exact I1.
Qed.

Lemma rep_inv b idx n i s s1 : Inv s -> rep (dec_body T ident b) idx n i s = Ok s1 -> Inv s1.
Proof.
  revert i s. induction n as [|n IH]; intros i s I E; cbn [rep] in E.
  - inversion E. subst. exact I.
  - apply obind_ok_inv in E. destruct E as [s' [E1 E2]].
    eapply IH; [|exact E2]. eapply body_inv; eauto.
Qed.
End Inv2.

(* ================= e. the offset is monotone and stays inside the payload ================= *)
Definition in_walk (p:bytes) (t0:Z) (s:st) : Prop :=
  o_payload (fst s) = p /\ t0 <= snd s <= nbits p.

Lemma in_walk_single T ident p t0 : label_zero_width T = true ->
  forall anam idx s s1, in_walk p t0 s -> set_single T ident anam idx s = Ok s1 -> in_walk p t0 s1.
Proof.
  intros W anam idx [o off] [o1 off1] [P B] E. cbn [fst snd] in *.
  pose proof (set_single_frame _ _ _ _ _ _ _ _ E) as [F _].
  pose proof (set_single_offset _ _ _ _ _ _ _ _ W E) as [M U].
  unfold in_walk. cbn [fst snd]. rewrite P in U. split; [congruence|lia].
Qed.

Theorem walk_body_bounds : forall T ident b idx o off o1 off1,
  label_zero_width T = true ->
  0 <= off <= nbits (o_payload o) ->
  dec_body T ident b idx (o, off) = Ok (o1, off1) ->
  off <= off1 <= nbits (o_payload o) /\ o_payload o1 = o_payload o.
Proof.
  intros T ident b idx o off o1 off1 W B E.
  pose proof (body_inv T ident (in_walk (o_payload o) off) (in_walk_single T ident _ off W) b idx (o,off) (o1,off1)) as H.
  destruct H as [P B1]; [split; cbn [fst snd]; [reflexivity|lia] | exact E |].
  cbn [fst snd] in *. split; [lia|exact P].
Qed.

Theorem walk_item_bounds : forall T ident lbl it idx o off o1 off1,
  label_zero_width T = true ->
  0 <= off <= nbits (o_payload o) ->
  dec_item T ident lbl it idx (o, off) = Ok (o1, off1) ->
  off <= off1 <= nbits (o_payload o) /\ o_payload o1 = o_payload o.
Proof.
  intros T ident lbl it idx o off o1 off1 W B E.
  pose proof (item_inv T ident (in_walk (o_payload o) off) (in_walk_single T ident _ off W) lbl it idx (o,off) (o1,off1)) as H.
  destruct H as [P B1]; [split; cbn [fst snd]; [reflexivity|lia] | exact E |].
  cbn [fst snd] in *. split; [lia|exact P].
Qed.

Theorem walk_rep_bounds : forall T ident b idx n i o off o1 off1,
  label_zero_width T = true ->
  0 <= off <= nbits (o_payload o) ->
  rep (dec_body T ident b) idx n i (o, off) = Ok (o1, off1) ->
  off <= off1 <= nbits (o_payload o) /\ o_payload o1 = o_payload o.
Proof.
  intros T ident b idx n i o off o1 off1 W B E.
  pose proof (rep_inv T ident (in_walk (o_payload o) off) (in_walk_single T ident _ off W) b idx n i (o,off) (o1,off1)) as H.
  destruct H as [P B1]; [split; cbn [fst snd]; [reflexivity|lia] | exact E |].
  cbn [fst snd] in *. split; [lia|exact P].
Qed.

Lemma handler_ok_inv {A} p (r:outcome A) a : handler p r = Ok a -> r = Ok a.
Proof.
  unfold handler. destruct r; try congruence; destruct (identity p); discriminate.
Qed.

Lemma decode_run_ok_inv T p lbl s :
  decode_run T p lbl = Ok s -> too_short p = false /\ decode_raw T (obj0 p lbl) = Ok s.
Proof.
  unfold decode_run. destruct (too_short p); [discriminate|].
  intro E. split; [reflexivity|]. eapply handler_ok_inv; exact E.
Qed.

Lemma decode_run_of_raw T p lbl s :
  too_short p = false -> decode_raw T (obj0 p lbl) = Ok s -> decode_run T p lbl = Ok s.
Proof. intros G E. unfold decode_run. rewrite G, E. reflexivity. Qed.

Theorem decode_in_bounds : forall T p lbl o t,
  label_zero_width T = true ->
  decode_run T p lbl = Ok (o, t) -> 0 <= t <= 8 * Z.of_nat (List.length p).
Proof.
  intros T p lbl o t W E. apply decode_run_ok_inv in E. destruct E as [_ E].
  unfold decode_raw in E. apply obind_ok_inv in E. destruct E as [ident [_ E]].
  destruct (get_dict T ident) as [pdict|].
  - apply walk_body_bounds in E; [|exact W|]; change (o_payload (obj0 p lbl)) with p in *; unfold nbits in *; lia.
  - apply obind_ok_inv in E. destruct E as [o1 [_ E]]. inversion E. lia.
Qed.

(* the payload of the result is the payload given *)
Lemma walk_body_frame T ident b idx s s1 :
  dec_body T ident b idx s = Ok s1 -> same_frame (fst s) (fst s1).
Proof.
  intro E.
  apply (body_inv T ident (fun s' => same_frame (fst s) (fst s'))) with (b:=b) (idx:=idx) (s:=s); [| apply same_frame_refl | exact E].
  intros anam idx0 [o0 off0] [o2 off2] I E0. cbn [fst] in *.
  eapply same_frame_trans; [exact I|]. eapply set_single_frame; exact E0.
Qed.

(* ================= f. extending the payload ================= *)
Definition ext (x:bytes) (o:obj) : obj :=
  {| o_immutable := o_immutable o; o_payload := o_payload o ++ x; o_payloadi := be (o_payload o ++ x);
     o_labelmsm := o_labelmsm o; o_unknown := o_unknown o; o_satmap := o_satmap o; o_cellmap := o_cellmap o;
     o_attrs := o_attrs o |}.

Definition pwf (o:obj) : Prop := o_payloadi o = be (o_payload o).

Lemma pwf_frame o o1 : same_frame o o1 -> pwf o -> pwf o1.
Proof. unfold pwf. intros [A [B _]] H. congruence. Qed.

Section Ext.
Variable T : tables.
Variable x : bytes.

Lemma setattr_ext o k v : setattr (ext x o) k v = omap (ext x) (setattr o k v).
Proof. unfold setattr. cbn [o_immutable ext]. destruct (o_immutable o); reflexivity. Qed.

Lemma getattr_ext o k : getattr (ext x o) k = getattr o k.
Proof. reflexivity. Qed.

Lemma getint_ext o k : getint (ext x o) k = getint o k.
Proof. reflexivity. Qed.

Lemma getsatcellmaps_ext ident o : getsatcellmaps T ident (ext x o) = omap (ext x) (getsatcellmaps T ident o).
Proof.
  unfold getsatcellmaps. destruct (assoc (substring 0 3 ident) (t_prnsig T)) as [[prnmap sigmap]|]; [|reflexivity].
  rewrite !getint_ext.
  destruct (getint o "DF394") as [d4| | |]; try reflexivity.
  destruct (getint o "DF395") as [d5| | |]; try reflexivity.
  destruct (getint o "DF396") as [d6| | |]; try reflexivity.
Qed.

Lemma field_width_ext anam fd o : field_width T anam fd (ext x o) = field_width T anam fd o.
Proof. reflexivity. Qed.

Lemma read_value_ext fd idx o off asiz vb : pwf o ->
  read_value fd idx o off asiz = Ok vb -> read_value fd idx (ext x o) off asiz = Ok vb.
Proof.
  intros P E.
  destruct (is_label_ty (df_ty fd)) eqn:L.
  - unfold read_value in *. destruct (df_ty fd); cbn in L; try discriminate; exact E.
  - pose proof (read_value_bounds fd idx o off asiz vb L E) as [B1 B2]. unfold nbits in B2.
    unfold read_value in *. cbn [o_payload o_payloadi ext].
    rewrite get_bits_extend_gen by assumption. rewrite <- P.
    destruct (df_ty fd); cbn in L; try discriminate; exact E.
Qed.

Lemma store_value_ext ty anam idx v o :
  store_value ty anam idx v (ext x o) = omap (ext x) (store_value ty anam idx v o).
Proof.
  unfold store_value. cbn [o_attrs ext].
  destruct ty; try apply setattr_ext.
  destruct (assoc anam (o_attrs o)) as [old|]; [|apply setattr_ext].
  destruct old as [z|f|old]; try reflexivity. destruct v as [z|f|new]; try reflexivity. apply setattr_ext.
Qed.

Lemma post_mask_ext ident anam ob o :
  post_mask T ident anam ob (ext x o) = omap (ext x) (post_mask T ident anam ob o).
Proof.
  unfold post_mask. destruct (is_mask_name anam); [|reflexivity].
  destruct ob as [b|]; [|reflexivity].
  destruct (String.eqb anam "DF394"); [apply setattr_ext|].
  destruct (String.eqb anam "DF395"); [apply setattr_ext|].
  rewrite setattr_ext, obind_omap.
  destruct (setattr o (t_ncell T) (VInt (popcount b))) as [o'| | |]; try reflexivity.
  cbn [obind]. apply getsatcellmaps_ext.
Qed.

Lemma harmonic_counts_ext idx o :
  harmonic_counts T idx (ext x o) = omap (ext x) (harmonic_counts T idx o).
Proof.
  unfold harmonic_counts. destruct (first_index idx) as [i| | |]; try reflexivity. cbn [obind].
  destruct (i <? 0); [reflexivity|]. rewrite !getint_ext.
  destruct (getint o ("IDF037_" ++ dd (Z.to_N i))) as [n0| | |]; try reflexivity. cbn [obind].
  destruct (getint o ("IDF038_" ++ dd (Z.to_N i))) as [m0| | |]; try reflexivity. cbn [obind].
  destruct ((2 ^ 24 <? Z.abs (n0 + 1)) || (2 ^ 24 <? Z.abs (m0 + 1))); [reflexivity|].
  rewrite setattr_ext, obind_omap.
  destruct (setattr o (t_nharmc T) _) as [o'| | |]; try reflexivity.
  cbn [obind]. apply setattr_ext.
Qed.

Lemma post_harm_ext anam idx o :
  post_harm T anam idx (ext x o) = omap (ext x) (post_harm T anam idx o).
Proof. unfold post_harm. destruct (String.eqb anam "IDF038"); [apply harmonic_counts_ext|reflexivity]. Qed.

Lemma set_single_ext ident anam idx o off o1 off1 : pwf o ->
  set_single T ident anam idx (o, off) = Ok (o1, off1) ->
  set_single T ident anam idx (ext x o, off) = Ok (ext x o1, off1).
Proof.
  intros P E. apply set_single_inv in E. destruct E as [fd [F E]].
  rewrite set_single_stages, F.
  apply field_stages_inv in E.
  destruct E as [asiz [vb [oa [ob [oc [E1 [E2 [E3 [E4 [E5 E6]]]]]]]]]].
  inversion E6. subst oc off1.
  unfold field_stages.
  rewrite field_width_ext, E1. cbn [obind].
  rewrite (read_value_ext fd idx o off asiz vb P E2). cbn [obind].
  rewrite store_value_ext, E3. cbn [omap obind].
  rewrite post_mask_ext, E4. cbn [omap obind].
  rewrite post_harm_ext, E5. reflexivity.
Qed.

(* the lock-step relation: same everything, payloads related by extension *)
Definition Rext (s s':st) : Prop := pwf (fst s) /\ s' = (ext x (fst s), snd s).

Lemma Rext_single ident anam idx s s' : Rext s s' ->
  osim Rext false (set_single T ident anam idx s) (set_single T ident anam idx s').
Proof.
  intros [P ->]. destruct s as [o off]. cbn [fst snd] in *.
  destruct (set_single T ident anam idx (o, off)) as [[o1 off1]| | |] eqn:E; cbn; try discriminate.
  exists (ext x o1, off1). split; [apply set_single_ext; assumption|].
  split; [|reflexivity]. cbn [fst]. eapply pwf_frame; [eapply set_single_frame; exact E|exact P].
Qed.

Lemma Rext_getattr k s s' : Rext s s' -> osim ctl_rel false (getattr (fst s) k) (getattr (fst s') k).
Proof.
  intros [_ ->]. cbn [fst]. rewrite getattr_ext.
  destruct (getattr (fst s) k) as [v| | |]; cbn; try discriminate.
  exists v. split; [reflexivity|apply ctl_rel_refl].
Qed.

Lemma walk_body_ext ident b idx o off o1 off1 : pwf o ->
  dec_body T ident b idx (o, off) = Ok (o1, off1) ->
  dec_body T ident b idx (ext x o, off) = Ok (ext x o1, off1).
Proof.
  intros P E.
  pose proof (sim_body T ident Rext false (Rext_single ident) Rext_getattr b idx (o,off) (ext x o, off)) as S.
  rewrite E in S. destruct S as [s2 [E2 [_ ->]]]; [split; [exact P|reflexivity]|]. exact E2.
Qed.

Lemma decode_raw_ext p lbl o t : too_short p = false ->
  decode_raw T (obj0 p lbl) = Ok (o, t) -> decode_raw T (obj0 (p ++ x) lbl) = Ok (ext x o, t).
Proof.
  intros G E. change (obj0 (p ++ x) lbl) with (ext x (obj0 p lbl)).
  unfold decode_raw in *. cbn [o_payload ext]. change (o_payload (obj0 p lbl)) with p in *.
  rewrite (identity_app p x G).
  destruct (identity p) as [ident| | |]; try discriminate. cbn [obind] in *.
  destruct (get_dict T ident) as [pdict|].
  - apply walk_body_ext; [reflexivity|exact E].
  - rewrite setattr_ext. destruct (setattr (obj0 p lbl) "DF002" (VStr (codes ident))) as [o1| | |]; try discriminate.
    cbn [omap obind] in *. inversion E. reflexivity.
Qed.
End Ext.

Theorem decode_extend : forall T p lbl o t,
  decode_run T p lbl = Ok (o, t) ->
  forall x, exists o', decode_run T (p ++ x) lbl = Ok (o', t) /\
    o_attrs o' = o_attrs o /\ o_satmap o' = o_satmap o /\ o_cellmap o' = o_cellmap o /\ o_unknown o' = o_unknown o.
Proof.
  intros T p lbl o t E x. apply decode_run_ok_inv in E. destruct E as [G E].
  exists (ext x o). split.
  - apply decode_run_of_raw; [apply too_short_app, G|]. apply decode_raw_ext; assumption.
  - repeat split.
Qed.

(* the complete description of the extended result *)
Theorem decode_extend_exact : forall T p lbl o t x,
  decode_run T p lbl = Ok (o, t) -> decode_run T (p ++ x) lbl = Ok (ext x o, t).
Proof.
  intros T p lbl o t x E. apply decode_run_ok_inv in E. destruct E as [G E].
  apply decode_run_of_raw; [apply too_short_app, G|]. apply decode_raw_ext; assumption.
Qed.

(* ================= g. trailing bytes change no attribute (C03) ================= *)
Theorem decode_trailing : forall T p lbl o x,
  construct T (Some p) lbl = Ok o ->
  exists o', construct T (Some (p ++ x)) lbl = Ok o' /\ o_attrs o' = o_attrs o /\
             o_satmap o' = o_satmap o /\ o_cellmap o' = o_cellmap o /\ o_unknown o' = o_unknown o.
Proof.
  intros T p lbl o x E. apply construct_ok_run in E. destruct E as [o1 [t [E ->]]].
  exists (with_immutable (ext x o1) true). split.
  - apply construct_ok_run. exists (ext x o1), t. split; [|reflexivity]. apply decode_extend_exact, E.
  - repeat split.
Qed.

(* a message type without payload definition has no fields: one attribute DF002, flagged unknown *)
Theorem decode_unknown : forall T p lbl ident,
  too_short p = false -> identity p = Ok ident -> get_dict T ident = None ->
  decode_run T p lbl = Ok (with_unknown (with_attrs (obj0 p lbl) [("DF002"%string, VStr (codes ident))]) true, 0).
Proof.
  intros T p lbl ident G I D. apply decode_run_of_raw; [exact G|].
  unfold decode_raw. change (o_payload (obj0 p lbl)) with p. rewrite I. cbn [obind]. rewrite D. reflexivity.
Qed.

Corollary unknown_trailing : forall T p lbl ident x,
  too_short p = false -> identity p = Ok ident -> get_dict T ident = None ->
  exists o o', construct T (Some p) lbl = Ok o /\ construct T (Some (p ++ x)) lbl = Ok o' /\
    o_attrs o = [("DF002"%string, VStr (codes ident))] /\ o_attrs o' = o_attrs o /\
    o_unknown o = true /\ o_unknown o' = true.
Proof.
  intros T p lbl ident x G I D.
  pose proof (decode_unknown T p lbl ident G I D) as E.
  pose proof (decode_extend_exact T p lbl _ _ x E) as E'.
  eexists. eexists. split; [apply construct_ok_run; eauto|].
  split; [apply construct_ok_run; eauto|]. repeat split.
Qed.

(* ================= h. truncation is rejected (C06) ================= *)
Theorem truncation_rejected : forall T p lbl o t,
  label_zero_width T = true ->
  decode_run T p lbl = Ok (o, t) ->
  forall n, 8 * Z.of_nat n < t -> too_short (firstn n p) = false ->
  forall o', construct T (Some (firstn n p)) lbl <> Ok o'.
Proof.
  intros T p lbl o t W E n Hn G o' C.
  apply construct_ok_run in C. destruct C as [o1 [t1 [E1 _]]].
  pose proof (decode_in_bounds T _ lbl o1 t1 W E1) as B.
  pose proof (decode_extend_exact T _ lbl o1 t1 (skipn n p) E1) as E2.
  rewrite firstn_skipn in E2. rewrite E in E2. inversion E2. subst t1.
  pose proof (firstn_le_length n p) as Ln. lia.
Qed.

(* what the rejection is: the library's type error (not a foreign exception) *)
Corollary truncation_outcome : forall T p lbl o t,
  label_zero_width T = true ->
  decode_run T p lbl = Ok (o, t) ->
  forall n, 8 * Z.of_nat n < t -> too_short (firstn n p) = false ->
  match construct T (Some (firstn n p)) lbl with
  | Lib e => e = EType | Unmodelled _ => True | _ => False end.
Proof.
  intros T p lbl o t W E n Hn G.
  pose proof (truncation_rejected T p lbl o t W E n Hn G) as NR.
  pose proof (construct_no_foreign T (Some (firstn n p)) lbl) as NF.
  destruct (construct T (Some (firstn n p)) lbl) as [o'|e|k|w] eqn:C.
  - exact (NR o' eq_refl).
  - eapply construct_lib_is_type; eauto.
  - exact NF.
  - exact I.
Qed.
