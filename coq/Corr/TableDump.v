(* Translation validation for tools/gen_tables.py: a canonical byte dump of a `tables` value computed INSIDE Coq, and a
   polynomial hash of it.  tools/table_digest.py computes the same dump from pyrtcm's runtime objects by an independent code
   path; the per-run file states that the two hashes are equal, so Tables.v (as the kernel reads it) denotes what Python holds. *)
From Coq Require Import NArith ZArith List String Ascii Bool PrimFloat FloatOps SpecFloat.
From Coq.Strings Require Import Byte.
From PyRtcm Require Import Base.Bytes Base.Dec Model.Types.
Import ListNotations. Open Scope list_scope.

Definition sbytes (s:string) : bytes := map (fun a => byte_of_N (N_of_ascii a)) (list_ascii_of_string s).
Definition lenpfx (b:bytes) : bytes := sbytes (str_of_N (N.of_nat (List.length b))) ++ [x3a] ++ b.     (* "<len>:" ++ b *)
Definition dstr (s:string) : bytes := lenpfx (sbytes s).
Definition dZ (z:Z) : bytes := lenpfx (sbytes (str_of_Z z)).
Definition dbytes (b:bytes) : bytes := lenpfx b.

(* float: sign, integer mantissa, exponent of the canonical IEEE form (zero -> "z") *)
Definition dfloat (f:float) : bytes :=
  match Prim2SF f with
  | S754_zero s => sbytes (if s then "f-z" else "f+z")
  | S754_infinity s => sbytes "finf"
  | S754_nan => sbytes "fnan"
  | S754_finite s m e => sbytes (if s then "f-" else "f+") ++ dZ (Zpos m) ++ dZ e
  end.

Definition dty (t:dtype) : bytes :=
  match t with
  | TBIT => dstr "BIT" | TBITX => dstr "BITX" | TCHA => dstr "CHA" | TSTR => dstr "STR" | TINT => dstr "INT" | TUINT => dstr "UINT"
  | TSNT => dstr "SNT" | TPRN => dstr "PRN" | TCPR => dstr "CPR" | TCSG => dstr "CSG" | TOther s => sbytes "?" ++ dstr s
  end.
Definition dres (r:res) : bytes :=
  match r with RInt z => sbytes "i" ++ dZ z | RFloat f => dfloat f | RBad w => sbytes "!" end.
Definition dfield_dump (d:dfield) : bytes := dstr (df_key d) ++ dty (df_ty d) ++ dZ (df_bits d) ++ dres (df_res d) ++ dstr (df_desc d).

Fixpoint ditem (lbl:string) (it:item) : bytes :=
  match it with
  | IField _ => sbytes "F" ++ dstr lbl
  | IBad _ => sbytes "!"
  | IGroup c b => sbytes "G" ++ dstr lbl ++ (match c with CFixed n => sbytes "n" ++ dZ n | CNamed k => sbytes "k" ++ dstr k | CBad _ => sbytes "!" end) ++ dbody b
  | IOpt k con b => sbytes "O" ++ dstr lbl ++ dstr k ++ dZ con ++ dbody b
  end
with dbody (b:body) : bytes :=
  match b with
  | BNotDict _ => sbytes "!"
  | BItems l => sbytes "{" ++ (fix go (l:list (string*item)) : bytes := match l with [] => [] | (lbl,it)::r => ditem lbl it ++ go r end) l ++ sbytes "}"
  end.

Definition dlist {A} (f:A -> bytes) (l:list A) : bytes := sbytes "[" ++ flat_map f l ++ sbytes "]".
Definition dlayouts (l:list (string*body)) : bytes := dlist (fun kb => dstr (fst kb) ++ dbody (snd kb)) l.

Definition dump (T:tables) : bytes :=
  dlist dfield_dump (t_fields T) ++ dlayouts (t_get T) ++ dlayouts (t_msm T) ++ dlayouts (t_igs T) ++
  dlist (fun kv => dstr (fst kv) ++ dstr (snd kv)) (t_msgids T) ++
  dlist (fun kv => dstr (fst kv) ++ dlist (fun p => dZ (fst p) ++ dstr (snd p)) (fst (snd kv)) ++
                   dlist (fun p => dZ (fst p) ++ dstr (fst (snd p)) ++ dstr (snd (snd p))) (snd (snd kv))) (t_prnsig T) ++
  dlist (fun kv => dstr (fst kv) ++ dstr (fst (snd kv)) ++ dstr (snd (snd kv))) (t_gnssmap T) ++
  dlist (fun kv => dZ (fst kv) ++ dstr (fst (snd kv)) ++ dstr (snd (snd kv))) (t_coeffs T) ++
  dlist dbytes (t_nmea_hdr T) ++ dbytes (t_ubx_hdr T) ++ dbytes (t_rtcm_hdr T) ++
  dstr (t_na T) ++ dstr (t_nsat T) ++ dstr (t_nsig T) ++ dstr (t_ncell T) ++ dstr (t_nharmc T) ++ dstr (t_nharms T) ++
  dZ (t_valcksum T) ++ dZ (t_err_raise T) ++ dZ (t_err_log T) ++ dZ (t_err_ignore T) ++
  dZ (t_enc_chunked T) ++ dZ (t_enc_gzip T) ++ dZ (t_enc_compress T) ++ dZ (t_enc_deflate T).

Definition hash_mod : N := 2305843009213693951.      (* 2^61 - 1 *)
Definition hash_bytes (b:bytes) : N := fold_left (fun h x => ((h * 257 + bN x + 1) mod hash_mod)%N) b 0%N.
Definition table_digest (T:tables) : N * N := (N.of_nat (List.length (dump T)), hash_bytes (dump T)).
