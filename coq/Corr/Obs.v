(* Observables of the modelled components in the canonical byte format of CaseLib (mirrored in tools/vlib.py
   and the drivers under corr/).  Not used by any theorem. *)
From Coq Require Import NArith ZArith List String Ascii Bool PrimFloat.
From Coq.Strings Require Import Byte.
From PyRtcm Require Import Base.Bytes Base.Dec Model.Types Model.Crc Model.Message Model.Reader Model.Socket Model.Helpers Corr.CaseLib.
Import ListNotations. Open Scope list_scope.

Definition ser_obytes (o:option bytes) : bytes := match o with Some b => x00 :: ser_bytes b | None => [x05] end.

(* ---- crc driver ---- *)
Definition obs_crc (m:bytes) : obs :=
  (ser_Z (Z.of_N (calc_crc24q m)) ++ ser_obytes (crc2bytes m) ++ ser_obytes (len2bytes m), []).

(* ---- msg driver ---- *)
Definition is_public (k:string) : bool := match k with String c _ => negb (Ascii.eqb c "_"%char) | EmptyString => true end.
Definition public (o:obj) : list (string*value) := filter (fun kv => is_public (fst kv)) (o_attrs o).
Definition starts_with (p s:string) : bool := String.prefix p s.
Definition is_msm_attr (k:string) : bool :=
  String.eqb k "NSat" || String.eqb k "NSig" || String.eqb k "NCell" || starts_with "PRN_" k || starts_with "CELLPRN_" k || starts_with "CELLSIG_" k.

Definition ser_out_bytes (o:outcome bytes) : bytes := fst (ser_outcome (fun b => (ser_bytes b, [])) o).

(* projections: 0 full, 1 outcome class, 2 identity/ismsm/DF002, 3 MSM count and label attributes *)
Definition obs_msg (T:tables) (proj:N) (lbl:Z) (p:bytes) : obs :=
  ser_outcome (fun o =>
    let ident := match obj_identity o with Ok i => i | _ => "?"%string end in
    match proj with
    | 0%N => let '(ab, fl) := ser_attrs (public o) in
             (ser_str ident ++ ser_bool (ismsm_of T ident) ++ ab ++ ser_out_bytes (serialize T o) ++ ser_bool (o_unknown o), fl)
    | 1%N => ([], [])
    | 2%N => let '(ab, fl) := ser_attrs (filter (fun kv => String.eqb (fst kv) "DF002" || String.eqb (fst kv) "IDF002") (public o)) in
             (ser_str ident ++ ser_bool (ismsm_of T ident) ++ ab ++ ser_bool (o_unknown o), fl)
    | _ => ser_attrs (filter (fun kv => is_msm_attr (fst kv)) (public o))
    end) (construct T (Some p) lbl).
