(* Observables of the modelled components in the canonical byte format of CaseLib (mirrored in tools/vlib.py
   and the drivers under corr/).  Not used by any theorem. *)
From Coq Require Import NArith ZArith List String Ascii Bool PrimFloat.
From Coq.Strings Require Import Byte.
From PyRtcm Require Import Base.Bytes Base.Dec Model.Types Model.Crc Model.Message Model.Reader Model.Socket Model.Helpers Corr.CaseLib.
Import ListNotations. Open Scope list_scope.

Definition ser_obytes (o:option bytes) : bytes := match o with Some b => x00 :: ser_bytes b | None => [x05] end.

(* ---- crc driver ---- *)
Definition obs_crc (m:bytes) : obs :=
  (ser_Z (Z.of_N (calc_crc24q m)) ++ ser_obytes (crc2bytes m) ++ ser_obytes (len2bytes m), []).

(* ---- msg driver ---- *)
Definition is_public (k:string) : bool := match k with String c _ => negb (Ascii.eqb c "_"%char) | EmptyString => true end.
Definition public (o:obj) : list (string*value) := filter (fun kv => is_public (fst kv)) (o_attrs o).
Definition starts_with (p s:string) : bool := String.prefix p s.
Definition is_msm_attr (k:string) : bool :=
  String.eqb k "NSat" || String.eqb k "NSig" || String.eqb k "NCell" || starts_with "PRN_" k || starts_with "CELLPRN_" k || starts_with "CELLSIG_" k.

Definition ser_out_bytes (o:outcome bytes) : bytes := fst (ser_outcome (fun b => (ser_bytes b, [])) o).

(* projections: 0 full, 1 outcome class, 2 identity/ismsm/DF002, 3 MSM count and label attributes *)
Definition obs_msg (T:tables) (proj:N) (lbl:Z) (p:bytes) : obs :=
  ser_outcome (fun o =>
    let ident := match obj_identity o with Ok i => i | _ => "?"%string end in
    match proj with
    | 0%N => let '(ab, fl) := ser_attrs (public o) in
             (ser_str ident ++ ser_bool (ismsm_of T ident) ++ ab ++ ser_out_bytes (serialize T o) ++ ser_bool (o_unknown o), fl)
    | 1%N => ([], [])
    | 2%N => let '(ab, fl) := ser_attrs (filter (fun kv => String.eqb (fst kv) "DF002" || String.eqb (fst kv) "IDF002") (public o)) in
             (ser_str ident ++ ser_bool (ismsm_of T ident) ++ ab ++ ser_bool (o_unknown o), fl)
    | _ => ser_attrs (filter (fun kv => is_msm_attr (fst kv)) (public o))
    end) (construct T (Some p) lbl).

(* ---- helpers driver ---- *)
Definition ser_idx (r:idx_res) : bytes :=
  match r with
  | IdxInt n => x00 :: ser_Z (Z.of_N n)
  | IdxTuple l => x01 :: ser_n 2 (N.of_nat (List.length l)) ++ flat_map (fun n => ser_Z (Z.of_N n)) l
  | IdxUnmodelled => [x09]
  end.
Definition obs_att (T:tables) (name:bytes) : obs :=
  let s := str_of_bytes name in
  (ser_idx (att2idx s) ++ ser_str (att2name s) ++ fst (ser_outcome (fun d => (ser_str d, [])) (datadesc T s)), []).

Fixpoint ser_rows (l:list (list (string*value))) : bytes * list float :=
  match l with [] => ([], []) | r::t => let '(b1,f1) := ser_attrs r in let '(b2,f2) := ser_rows t in (b1 ++ b2, f1 ++ f2) end.
Definition ser_msm (m:option msm_out) : bytes * list float :=
  match m with
  | None => ([x00], [])
  | Some r => let '(b0,f0) := ser_attrs (m_meta r) in let '(b1,f1) := ser_rows (m_sats r) in let '(b2,f2) := ser_rows (m_cells r) in
              (x01 :: b0 ++ ser_n 2 (N.of_nat (List.length (m_sats r))) ++ b1 ++ ser_n 2 (N.of_nat (List.length (m_cells r))) ++ b2, f0 ++ f1 ++ f2)
  end.
Fixpoint ser_vals (l:list value) : bytes * list float :=
  match l with [] => ([], []) | v::t => let '(b1,f1) := ser_value v in let '(b2,f2) := ser_vals t in (b1 ++ b2, f1 ++ f2) end.
Fixpoint ser_coeffs (l:list (string * list value)) : bytes * list float :=
  match l with [] => ([], []) | (k,vs)::t => let '(b1,f1) := ser_vals vs in let '(b2,f2) := ser_coeffs t in
     (ser_str k ++ ser_n 2 (N.of_nat (List.length vs)) ++ b1 ++ b2, f1 ++ f2) end.
Fixpoint ser_layers (l:list layer_out) : bytes * list float :=
  match l with [] => ([], []) | r::t => let '(b0,f0) := ser_value (l_height r) in let '(b1,f1) := ser_coeffs (l_coeffs r) in let '(b2,f2) := ser_layers t in
     (b0 ++ ser_n 2 (N.of_nat (List.length (l_coeffs r))) ++ b1 ++ b2, f0 ++ f1 ++ f2) end.
Definition ser_4076 (m:option (list layer_out)) : bytes * list float :=
  match m with None => ([x00], []) | Some ls => let '(b,f) := ser_layers ls in (x01 :: ser_n 2 (N.of_nat (List.length ls)) ++ b, f) end.

Definition obs_arrays (T:tables) (lbl:Z) (p:bytes) : obs :=
  match construct T (Some p) lbl with
  | Ok o => let '(b1,f1) := ser_outcome ser_msm (parse_msm T o) in let '(b2,f2) := ser_outcome ser_4076 (parse_4076_201 T o) in (x00 :: b1 ++ b2, f1 ++ f2)
  | Lib e => ([tag_liberr e], []) | Foreign _ => ([x05], []) | Unmodelled _ => ([x09], [])
  end.

(* ---- reader driver ---- *)
Definition mk_cfg (v q l:Z) (p:bool) : cfg := {| validate := v; quitonerror := q; labelmsm := l; parsed := p |}.
Definition dirs_of (l:list Z) : list directive := map (fun z => if (z <? 0)%Z then Full else Short (Z.to_nat z)) l.
Definition ser_parsed (T:tables) (m:option obj) : bytes :=
  match m with
  | None => [x00]
  | Some o => x01 :: ser_str (match obj_identity o with Ok i => i | _ => "?"%string end) ++ ser_bytes (o_payload o)
                  ++ ser_out_bytes (serialize T o)
  end.
Definition ser_result (T:tables) (hr:list liberr * rd_result obj) : bytes :=
  let '(h, r) := hr in
  ser_n 2 (N.of_nat (List.length h)) ++ map tag_liberr h ++
  match r with
  | RYield raw m => x00 :: ser_bytes raw ++ ser_parsed T m
  | REnd => [x10]
  | RRaise e => [x20; tag_liberr e]
  | RForeign _ => [x05]
  | RUnmodelled _ => [x09]
  | ROutOfFuel => [x0a]
  end.
Definition ctor (T:tables) (p:bytes) (l:Z) : outcome obj := construct T (Some p) l.
Definition obs_reader_file (T:tables) (v q l:Z) (p:bool) (k:nat) (data:bytes) (sch:list Z) : obs :=
  let s0 := {| rest := data; sched := dirs_of sch |} in
  let '(evs, s') := run_reads file_ops (ctor T) (t_nmea_hdr T) (t_ubx_hdr T) (t_valcksum T) (t_err_raise T) (t_err_log T)
                      (mk_cfg v q l p) (S (List.length data)) k s0 in
  (flat_map (ser_result T) evs ++ ser_n 3 (N.of_nat (List.length data - List.length (rest s'))), []).

Definition evs_of (l:list (option blob)) : list recv_ev := map (fun o => match o with Some b => Data (unpack b) | None => Fail end) l.
Definition obs_reader_sock (T:tables) (chunked:bool) (v q l:Z) (p:bool) (k:nat) (ev:list (option blob)) : obs :=
  let e := evs_of ev in
  let s0 := sock_init chunked (fun x => x) e in
  let '(evs, s') := run_reads (sock_ops chunked (fun x => x)) (ctor T) (t_nmea_hdr T) (t_ubx_hdr T) (t_valcksum T) (t_err_raise T) (t_err_log T)
                      (mk_cfg v q l p) (S (data_len e)) k s0 in
  (flat_map (ser_result T) evs ++ ser_bytes (buf s') ++ ser_bool (unm s'), []).

(* ---- sock / chunk drivers ---- *)
Fixpoint sock_reads (chunked:bool) (dz:bytes -> bytes) (ops:list Z) (s:sock) : bytes :=
  match ops with
  | [] => ser_bytes (buf s) ++ ser_bool (unm s)
  | n::r => let '(o, s') := (if (n <? 0)%Z then sock_readline chunked dz s else sock_read chunked dz (Z.to_nat n) s) in
            ser_bytes o ++ sock_reads chunked dz r s'
  end.
(* dz oracle: association list recorded from the implementation's zlib, identity elsewhere *)
Definition dz_of (tbl:list (bytes*bytes)) (c:bytes) : bytes :=
  match find (fun kv => beqb (fst kv) c) tbl with Some kv => snd kv | None => c end.
Definition obs_sock (chunked:bool) (tbl:list (blob*blob)) (ev:list (option blob)) (ops:list Z) : obs :=
  let dz := dz_of (map (fun kv => (unpack (fst kv), unpack (snd kv))) tbl) in
  (sock_reads chunked dz ops (sock_init chunked dz (evs_of ev)), []).
Definition obs_dechunk (tbl:list (blob*blob)) (seg:bytes) : obs :=
  let dz := dz_of (map (fun kv => (unpack (fst kv), unpack (snd kv))) tbl) in
  (match dechunk dz seg with DOk c p => x00 :: ser_bytes c ++ ser_bytes p | DUnm => [x09] end, []).

(* ---- the spec ENCODER (Spec/Encoder.v) evaluated on the raw field values the Python reference encoder used:
        validates the Coq spec against the independent encoder and the implementation, on the real tables ---- *)
From PyRtcm Require Spec.Encoder.
Definition obs_encoder (T:tables) (lbl:Z) (ident:bytes) (vals:list N) : obs :=
  let id := str_of_bytes ident in
  match get_dict T id with
  | None => ([x0b], [])
  | Some b =>
      match Encoder.lay_out T id (negb (lbl =? 2)%Z) b vals with
      | None => ([x0c], [])
      | Some (bitsl, a, rest) =>
          let pad := repeat false ((8 - List.length bitsl mod 8) mod 8) in
          let '(ab, fl) := ser_attrs (Encoder.public a) in
          (x00 :: ser_bytes (Encoder.pack (bitsl ++ pad)) ++ ser_n 2 (N.of_nat (List.length rest)) ++ ab, fl)
      end
  end.
