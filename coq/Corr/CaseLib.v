(* Correspondence glue: unpack byte blobs written by the Python harness, serialise model observables to
   the same canonical byte format, report the indices of disagreeing cases.  Not used by any theorem. *)
From Coq Require Import NArith ZArith List String Ascii Bool PrimFloat Uint63.
From Coq.Strings Require Import Byte.
From PyRtcm Require Import Base.Bytes Model.Types Model.Message.
Import ListNotations. Open Scope list_scope.

(* ---- blobs: (length, 7 bytes per 63-bit word) ---- *)
Definition b_of (x:int) : byte := byte_of_N (Z.to_N (Uint63.to_Z x)).
Definition unpack7 (w:int) : list byte :=
  [b_of (w >> 48); b_of ((w >> 40) land 255); b_of ((w >> 32) land 255); b_of ((w >> 24) land 255);
   b_of ((w >> 16) land 255); b_of ((w >> 8) land 255); b_of (w land 255)]%uint63.
Definition blob := (nat * list int)%type.
Definition unpack (c:blob) : bytes := firstn (fst c) (flat_map unpack7 (snd c)).

Definition beqb (a b:bytes) : bool := if list_eq_dec Byte.byte_eq_dec a b then true else false.
Definition feqb (a b:float) : bool := (a =? b)%float && Bool.eqb (get_sign a) (get_sign b).
Fixpoint fl_eqb (a b:list float) : bool :=
  match a, b with [], [] => true | x::r, y::t => feqb x y && fl_eqb r t | _, _ => false end.

(* ---- canonical serialisation ---- *)
Definition ser_n (k:nat) (n:N) : bytes := to_be k n.      (* truncating; lengths are far below the limits *)
Definition ser_bytes (b:bytes) : bytes := ser_n 3 (N.of_nat (List.length b)) ++ b.
Definition bytes_of_string (s:string) : bytes := map (fun a => byte_of_N (N_of_ascii a)) (list_ascii_of_string s).
Definition ser_str (s:string) : bytes := ser_bytes (bytes_of_string s).
Fixpoint N_bytes_be (fuel:nat) (n:N) (acc:bytes) : bytes :=
  match fuel with O => acc | S f => if (n =? 0)%N then acc else N_bytes_be f (n / 256)%N (byte_of_N n :: acc) end.
Definition ser_Z (z:Z) : bytes :=
  let m := N_bytes_be (S (N.to_nat (N.size (Z.abs_N z)))) (Z.abs_N z) [] in
  (if (z <? 0)%Z then x01 else x00) :: ser_n 2 (N.of_nat (List.length m)) ++ m.
Definition ser_value (v:value) : bytes * list float :=
  match v with
  | VInt z => (x00 :: ser_Z z, [])
  | VFloat f => ([x01], [f])
  | VStr s => (x02 :: ser_n 2 (N.of_nat (List.length s)) ++ flat_map (ser_n 3) s, [])
  end.
Fixpoint ser_attrs_aux (l:list (string*value)) : bytes * list float :=
  match l with
  | [] => ([], [])
  | (k,v)::r => let '(b1,f1) := ser_value v in let '(b2,f2) := ser_attrs_aux r in (ser_str k ++ b1 ++ b2, f1 ++ f2)
  end.
Definition ser_attrs (l:list (string*value)) : bytes * list float :=
  let '(b,f) := ser_attrs_aux l in (ser_n 2 (N.of_nat (List.length l)) ++ b, f).

Definition tag_liberr (e:liberr) : byte := match e with EMessage => x01 | EParse => x02 | EStream => x03 | EType => x04 end.
Definition ser_outcome {A} (f:A -> bytes * list float) (o:outcome A) : bytes * list float :=
  match o with
  | Ok a => let '(b,fl) := f a in (x00 :: b, fl)
  | Lib e => ([tag_liberr e], [])
  | Foreign _ => ([x05], [])
  | Unmodelled _ => ([x09], [])
  end.

Definition ser_bool (b:bool) : bytes := [if b then x01 else x00].

(* generic comparison of a list of (got, expected) observables: indices that differ *)
Definition obs := (bytes * list float)%type.
Definition obs_eqb (a b:obs) : bool := beqb (fst a) (fst b) && fl_eqb (snd a) (snd b).
Fixpoint mismatches_from (i:nat) (l:list (obs * obs)) : list nat :=
  match l with [] => [] | (g,e)::r => if obs_eqb g e then mismatches_from (S i) r else i :: mismatches_from (S i) r end.
Definition mismatches := mismatches_from 0.

Definition str_of_bytes (b:bytes) : string := string_of_list_ascii (map (fun x => ascii_of_N (bN x)) b).
